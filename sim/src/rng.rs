//! Self-contained PRNG: splitmix64 for seed derivation, xoshiro256** for every
//! choice the simulator makes. No dependency on the `rand` crate, whose stream
//! may change between versions.

pub fn splitmix64(x: &mut u64) -> u64 {
    *x = x.wrapping_add(0x9E37_79B9_7F4A_7C15);
    let mut z = *x;
    z = (z ^ (z >> 30)).wrapping_mul(0xBF58_476D_1CE4_E5B9);
    z = (z ^ (z >> 27)).wrapping_mul(0x94D0_49BB_1331_11EB);
    z ^ (z >> 31)
}

/// Stable FNV-1a over bytes (used for family hashing and event digests).
pub fn fnv1a(bytes: &[u8]) -> u64 {
    let mut h: u64 = 0xcbf2_9ce4_8422_2325;
    for b in bytes {
        h ^= *b as u64;
        h = h.wrapping_mul(0x0000_0100_0000_01b3);
    }
    h
}

/// Seed of run `i` of `family` under master seed `master`.
pub fn run_seed(master: u64, family: &str, i: u64) -> u64 {
    let mut s = master ^ fnv1a(family.as_bytes()) ^ i.wrapping_mul(0xD6E8_FEB8_6659_FD93);
    let a = splitmix64(&mut s);
    let b = splitmix64(&mut s);
    a ^ b.rotate_left(17)
}

#[derive(Clone, Debug)]
pub struct Rng {
    s: [u64; 4],
}

impl Rng {
    pub fn new(seed: u64) -> Self {
        let mut x = seed;
        let s = [
            splitmix64(&mut x),
            splitmix64(&mut x),
            splitmix64(&mut x),
            splitmix64(&mut x),
        ];
        Rng { s }
    }

    #[inline]
    pub fn next(&mut self) -> u64 {
        let result = self.s[1].wrapping_mul(5).rotate_left(7).wrapping_mul(9);
        let t = self.s[1] << 17;
        self.s[2] ^= self.s[0];
        self.s[3] ^= self.s[1];
        self.s[1] ^= self.s[2];
        self.s[0] ^= self.s[3];
        self.s[2] ^= t;
        self.s[3] = self.s[3].rotate_left(45);
        result
    }

    /// Uniform in 0..n (n > 0).
    #[inline]
    pub fn below(&mut self, n: u64) -> u64 {
        debug_assert!(n > 0);
        // multiply-shift; bias is irrelevant here
        ((self.next() as u128 * n as u128) >> 64) as u64
    }

    /// Uniform in lo..=hi.
    #[inline]
    pub fn range(&mut self, lo: u64, hi: u64) -> u64 {
        debug_assert!(lo <= hi);
        if lo == 0 && hi == u64::MAX {
            return self.next();
        }
        lo + self.below(hi - lo + 1)
    }

    #[inline]
    pub fn usize_range(&mut self, lo: usize, hi: usize) -> usize {
        self.range(lo as u64, hi as u64) as usize
    }

    /// True with probability num/den.
    #[inline]
    pub fn chance(&mut self, num: u64, den: u64) -> bool {
        self.below(den) < num
    }

    pub fn pick<'a, T>(&mut self, xs: &'a [T]) -> &'a T {
        &xs[self.below(xs.len() as u64) as usize]
    }

    /// A value with a random bit length in 0..=maxbits (uniform over lengths).
    pub fn bits_len(&mut self, maxbits: u32) -> u64 {
        let l = self.below(maxbits as u64 + 1) as u32;
        if l == 0 {
            0
        } else if l == 64 {
            self.next() | (1 << 63)
        } else {
            (self.next() & ((1u64 << l) - 1)) | (1u64 << (l - 1))
        }
    }

    /// "Interesting" 64-bit value: small, 2^i-1, 2^i, 2^i+1, random length.
    pub fn interesting(&mut self, max: u64) -> u64 {
        let v = match self.below(8) {
            0 => self.below(16),
            1 => self.below(300),
            2 => {
                let i = self.below(64);
                (1u64 << i).wrapping_sub(1)
            }
            3 => 1u64 << self.below(64),
            4 => (1u64 << self.below(64)).wrapping_add(1),
            5 => max.wrapping_sub(self.below(3)),
            _ => self.bits_len(64),
        };
        if v > max {
            max - (v % 3).min(max)
        } else {
            v
        }
    }
}
