//! C18 — byte-level VByte functions agree with the bit-stream codes and are
//! complete, for every conforming Read / Write.
//!
//! System: REAL vbyte_write_{be,le}, vbyte_write::<E>, vbyte_read_{be,le},
//! vbyte_read::<E> over SimDisk with fault-free / benign (short transfers,
//! Interrupted) / faulting (Ok(0), hard errors, full device, truncation inside a
//! value) plans, and the REAL bit-stream VByte traits on BufBitWriter (all words,
//! both stream endiannesses) / bit readers at byte-aligned positions.
//! Oracle: device bytes == bit-stream image bytes; returned lengths follow the
//! completeness steps 2^7, 2^7+2^14, ...; decode(encode(v)) == v; every
//! terminated byte string is the encoding of exactly one value; generic entry ==
//! named variant; benign faults invisible; an error or EOF inside a value yields
//! Err, never a value; a failing sink yields Err or all bytes.

use crate::bits::*;
use crate::fw::*;
use crate::model::En;
use crate::rng::Rng;
use crate::simdisk::*;
use dsi_bitstream::prelude::*;
use serde::{Deserialize, Serialize};
use std::mem::ManuallyDrop;

#[derive(Clone, Copy, Debug, PartialEq, Eq, Serialize, Deserialize, Hash)]
pub enum Var18 {
    Be,
    Le,
    GenericBe,
    GenericLe,
}
impl Var18 {
    fn is_be(self) -> bool {
        matches!(self, Var18::Be | Var18::GenericBe)
    }
}

#[derive(Clone, Debug, Serialize, Deserialize)]
pub enum Mode18 {
    /// write values with the io function; compare with the bit-stream writer
    Write { values: Vec<u64>, word: Wd, stream_e: En },
    /// read back (io function) a stream encoded fault-free; `cut` truncates the device
    Read { values: Vec<u64>, cut: Option<usize>, bit_kind: RdKind, stream_e: En },
    /// decode a terminated byte string and re-encode it
    Complete { strings: Vec<Vec<u8>> },
}

#[derive(Clone, Debug, Serialize, Deserialize)]
pub struct S18 {
    pub var: Var18,
    pub plan: FaultPlan,
    pub mode: Mode18,
}

pub struct C18;

/// Independent definition of the encoded length (completeness steps).
fn ref_len(v: u64) -> usize {
    let mut k = 1usize;
    let mut bound: u128 = 1 << 7;
    while (v as u128) >= bound {
        k += 1;
        bound += 1u128 << (7 * k);
    }
    k
}

fn io_write(var: Var18, v: u64, d: &mut SimDisk) -> std::io::Result<usize> {
    match var {
        Var18::Be => vbyte_write_be(v, d),
        Var18::Le => vbyte_write_le(v, d),
        Var18::GenericBe => vbyte_write::<BE, _>(v, d),
        Var18::GenericLe => vbyte_write::<LE, _>(v, d),
    }
}
fn io_read(var: Var18, d: &mut SimDisk) -> std::io::Result<u64> {
    match var {
        Var18::Be => vbyte_read_be(d),
        Var18::Le => vbyte_read_le(d),
        Var18::GenericBe => vbyte_read::<BE, _>(d),
        Var18::GenericLe => vbyte_read::<LE, _>(d),
    }
}

fn class(plan: &FaultPlan) -> &'static str {
    if plan.is_empty() {
        "faultfree"
    } else if plan.benign_only() {
        "benign"
    } else {
        "faulting"
    }
}

fn tags(s: &S18, op: &str) -> Vec<String> {
    vec![format!("var={:?}", s.var), format!("class={}", class(&s.plan)), format!("op={}", op)]
}

fn harvest(ctx: &mut Ctx, sh: &DiskShared) {
    for ((f, op), n) in &sh.fired {
        ctx.fault(&format!("{}@{}", f, op), *n);
    }
}

/// Bytes of the values as written by the REAL bit-stream trait.
fn bitstream_bytes(var: Var18, values: &[u64], word: Wd, e: En) -> Result<(Vec<u8>, Vec<usize>), String> {
    let (w, h) = AnyWriter::new(e, word, &WrBackend::Rec { refuse_at: None });
    let mut w = ManuallyDrop::new(w);
    let code = if var.is_be() { Code::VByteBe } else { Code::VByteLe };
    let mut lens = Vec::new();
    for v in values {
        match guard(|| w.write_code(code, 0, *v)) {
            Ok(Ok(k)) => lens.push(k),
            Ok(Err(e)) => return Err(format!("bit-stream vbyte write failed: {}", e)),
            Err(p) => return Err(format!("bit-stream vbyte write panicked: {}", p)),
        }
    }
    let _ = guard(|| w.flush());
    let b = h.delivered_bytes();
    let _ = guard(|| unsafe { ManuallyDrop::drop(&mut w) });
    Ok((b, lens))
}

fn run_write(s: &S18, values: &[u64], word: Wd, stream_e: En, ctx: &mut Ctx) {
    let mut d = SimDisk::new(Vec::new(), &s.plan);
    let sh = d.handle();
    let cls = class(&s.plan);
    let mut acked: usize = 0;
    let mut total_len = 0usize;
    for (i, v) in values.iter().enumerate() {
        ctx.step(tags(s, "vbyte_write"));
        ctx.ops += 1;
        let exp_len = ref_len(*v);
        ctx.sig(&[18, s.var as u64, exp_len as u64, cls.len() as u64, 0]);
        ctx.probe_if(exp_len == 10, "c18.ten_byte_value");
        let r = match guard(|| io_write(s.var, *v, &mut d)) {
            Ok(r) => r,
            Err(p) => return ctx.fail("C18.panic", format!("vbyte write of {} panicked: {}", v, p)),
        };
        match r {
            Ok(k) => {
                ctx.ev(k as u64);
                if k != exp_len || k != byte_len_vbyte(*v) {
                    return ctx.fail(
                        "C18.length",
                        format!(
                            "value #{} = {}: write returned {} bytes, byte_len_vbyte says {}, the completeness steps (2^7, 2^7+2^14, ...) give {}",
                            i,
                            v,
                            k,
                            byte_len_vbyte(*v),
                            exp_len
                        ),
                    );
                }
                acked = i + 1;
                total_len += k;
                ctx.progressed = true;
            }
            Err(e) => {
                ctx.probe("c18.write_error_surfaced");
                if cls == "faultfree" {
                    return ctx.fail("C18.spurious_error", format!("vbyte write failed on a fault-free sink: {:?}", e.kind()));
                }
                if cls == "benign" {
                    return ctx.fail(
                        "C18.benign_fault_visible",
                        format!("vbyte write of value #{} failed ({:?}) although the sink only returned short counts / Interrupted", i, e.kind()),
                    );
                }
                break;
            }
        }
    }
    // device content: the acknowledged values, exactly, then at most a partial value
    let (exp, lens) = match bitstream_bytes(s.var, &values[..acked], word, stream_e) {
        Ok(x) => x,
        Err(m) => return ctx.fail("C18.bitstream_error", m),
    };
    ctx.set_tags(tags(s, "compare_with_bitstream"));
    let got = sh.borrow().data.clone();
    ctx.ev_bytes(&got);
    let bl: usize = lens.iter().sum::<usize>() / 8;
    if bl != total_len {
        return ctx.fail(
            "C18.length",
            format!("bit-stream writes returned {} bits in total, io writes {} bytes", lens.iter().sum::<usize>(), total_len),
        );
    }
    if got.len() < total_len || got[..total_len] != exp[..total_len] {
        return ctx.fail(
            "C18.bytes_differ",
            format!(
                "io function wrote {:02x?}; the bit-stream code ({:?} stream, {:?} words) writes {:02x?} for the same {} values",
                got,
                stream_e,
                word,
                &exp[..total_len],
                acked
            ),
        );
    }
    if acked == values.len() && got.len() != total_len {
        return ctx.fail("C18.bytes_differ", format!("extra bytes on the device: {:02x?} vs {} expected", got, total_len));
    }
    harvest(ctx, &sh.borrow());
}

fn run_read(s: &S18, values: &[u64], cut: Option<usize>, bit_kind: RdKind, stream_e: En, ctx: &mut Ctx) {
    // encode fault-free with the io function
    let mut enc = SimDisk::new(Vec::new(), &FaultPlan::none());
    let mut ends = Vec::new();
    for v in values {
        if !matches!(guard(|| io_write(s.var, *v, &mut enc)), Ok(Ok(_))) {
            return; // write-side problems are reported by the Write mode
        }
        ends.push(enc.handle().borrow().data.len());
    }
    let full = enc.handle().borrow().data.clone();
    let mut data = full.clone();
    if let Some(c) = cut {
        data.truncate(c.min(full.len()));
    }
    let truncated = data.len() < full.len();
    let mut d = SimDisk::new(data.clone(), &s.plan);
    let sh = d.handle();
    let cls = class(&s.plan);
    for (i, v) in values.iter().enumerate() {
        ctx.step(tags(s, "vbyte_read"));
        ctx.ops += 1;
        let inside = ends[i] <= data.len();
        ctx.sig(&[18, s.var as u64, ref_len(*v) as u64, cls.len() as u64, 1 + inside as u64]);
        let r = match guard(|| io_read(s.var, &mut d)) {
            Ok(r) => r,
            Err(p) => return ctx.fail("C18.panic", format!("vbyte read #{} panicked: {}", i, p)),
        };
        match r {
            Ok(x) => {
                ctx.ev(x);
                if !inside {
                    return ctx.fail(
                        "C18.fabricated",
                        format!(
                            "value #{} needs bytes {}..{} but the source ends at byte {}: vbyte read returned {} instead of an error",
                            i,
                            if i == 0 { 0 } else { ends[i - 1] },
                            ends[i],
                            data.len(),
                            x
                        ),
                    );
                }
                if x != *v {
                    return ctx.fail("C18.roundtrip", format!("value #{}: wrote {}, read back {}", i, v, x));
                }
                ctx.progressed = true;
            }
            Err(e) => {
                ctx.probe("c18.read_error_surfaced");
                if !inside {
                    ctx.probe("c18.eof_inside_value");
                    ctx.fault("source_truncated_inside_value", 1);
                    ctx.progressed = true;
                } else if cls == "faultfree" {
                    return ctx.fail("C18.spurious_error", format!("vbyte read #{} failed on a fault-free source: {:?}", i, e.kind()));
                } else if cls == "benign" {
                    return ctx.fail(
                        "C18.benign_fault_visible",
                        format!("vbyte read #{} failed ({:?}) although the source only returned short counts / Interrupted", i, e.kind()),
                    );
                }
                break;
            }
        }
    }
    harvest(ctx, &sh.borrow());
    // the same bytes through the bit-stream readers (fault-free, untruncated)
    if !truncated {
        ctx.set_tags(tags(s, "bitstream_read"));
        let mut padded = full.clone();
        padded.extend_from_slice(&[0u8; 16]);
        let (mut r, _h) = AnyReader::new(stream_e, bit_kind, &RdBackend::MemInf, &padded);
        let code = if s.var.is_be() { Code::VByteBe } else { Code::VByteLe };
        for (i, v) in values.iter().enumerate() {
            match guard(|| r.read_code(code, 0)) {
                Ok(Ok(x)) => {
                    if x != *v {
                        return ctx.fail(
                            "C18.bytes_differ",
                            format!(
                                "value #{} = {} written by the io function is read as {} by the bit-stream code ({:?} stream, reader {:?})",
                                i, v, x, stream_e, bit_kind
                            ),
                        );
                    }
                }
                Ok(Err(e)) => return ctx.fail("C18.bitstream_error", format!("bit-stream read failed: {}", e)),
                Err(p) => return ctx.fail("C18.panic", format!("bit-stream vbyte read panicked: {}", p)),
            }
        }
    }
}

fn run_complete(s: &S18, strings: &[Vec<u8>], ctx: &mut Ctx) {
    for (i, st) in strings.iter().enumerate() {
        ctx.step(tags(s, "decode_then_encode"));
        ctx.ops += 1;
        ctx.sig(&[18, s.var as u64, st.len() as u64, 7, 7]);
        let mut d = SimDisk::new(st.clone(), &FaultPlan::none());
        let v = match guard(|| io_read(s.var, &mut d)) {
            Ok(Ok(v)) => v,
            Ok(Err(e)) => return ctx.fail("C18.completeness", format!("terminated string #{} {:02x?} is rejected: {:?}", i, st, e.kind())),
            Err(p) => return ctx.fail("C18.panic", format!("decoding {:02x?} panicked: {}", st, p)),
        };
        if d.position() as usize != st.len() {
            return ctx.fail(
                "C18.completeness",
                format!("decoding the terminated string {:02x?} consumed {} bytes", st, d.position()),
            );
        }
        let mut o = SimDisk::new(Vec::new(), &FaultPlan::none());
        match guard(|| io_write(s.var, v, &mut o)) {
            Ok(Ok(_)) => {}
            _ => return ctx.fail("C18.completeness", format!("re-encoding {} failed", v)),
        }
        let back = o.handle().borrow().data.clone();
        ctx.ev(v);
        ctx.progressed = true;
        if back != *st {
            return ctx.fail(
                "C18.completeness",
                format!("string {:02x?} decodes to {}, which encodes to {:02x?}: the code is not complete / not unique", st, v, back),
            );
        }
    }
}

fn gen_value18(rng: &mut Rng) -> u64 {
    // length-step boundaries: 2^7, 2^7+2^14, ...
    let mut bounds: Vec<u64> = Vec::new();
    let mut b: u128 = 0;
    for k in 1..=9 {
        b += 1u128 << (7 * k);
        if b <= u64::MAX as u128 {
            bounds.push(b as u64);
        }
    }
    match rng.below(8) {
        0 => rng.below(1 << 21),
        1 | 2 => {
            let b = *rng.pick(&bounds);
            b.wrapping_add(rng.below(5)).wrapping_sub(2)
        }
        3 => u64::MAX - rng.below(3),
        4 => rng.below(300),
        _ => rng.bits_len(64),
    }
}

fn gen_plan18(rng: &mut Rng, cls: u64, ncalls: usize) -> FaultPlan {
    let mut plan = FaultPlan::none();
    if cls == 0 {
        return plan;
    }
    let rate = if rng.chance(1, 10) { rng.range(80, 97) } else { rng.range(3, 40) };
    let ncalls = if rate >= 80 { ncalls * 12 } else { ncalls };
    for c in 0..ncalls {
        if rng.below(100) < rate {
            plan.at.push((c, if rng.chance(1, 3) { Fault::Interrupted } else { Fault::Short(rng.usize_range(1, 9)) }));
        }
    }
    if cls == 2 {
        let at = rng.usize_range(0, ncalls.max(1) - 1);
        plan.at.retain(|(c, _)| *c != at);
        plan.at.push((
            at,
            match rng.below(3) {
                0 => Fault::Zero,
                _ => Fault::Hard(*rng.pick(&ErrK::HARD)),
            },
        ));
        plan.at.sort_by_key(|x| x.0);
        if rng.chance(1, 5) {
            plan.capacity = Some(rng.usize_range(0, 30));
        }
    }
    plan
}

impl Family for C18 {
    type Scn = S18;
    const ID: &'static str = "C18";

    fn gen(rng: &mut Rng, _tier: Tier, index: u64) -> S18 {
        let var = [Var18::Be, Var18::Le, Var18::GenericBe, Var18::GenericLe][(index % 4) as usize];
        let cls = (index / 4) % 3;
        let n = rng.usize_range(1, 8);
        let values: Vec<u64> = (0..n).map(|_| gen_value18(rng)).collect();
        let stream_e = if rng.chance(1, 2) { En::BE } else { En::LE };
        match (index / 12) % 5 {
            0 | 1 => S18 {
                var,
                plan: gen_plan18(rng, cls, n * 12),
                mode: Mode18::Write {
                    values,
                    word: Wd::ALL[rng.below(5) as usize],
                    stream_e,
                },
            },
            2 | 3 => {
                let total: usize = values.iter().map(|v| ref_len(*v)).sum();
                let cut = if rng.chance(1, 2) { Some(rng.usize_range(0, total)) } else { None };
                S18 {
                    var,
                    plan: gen_plan18(rng, cls, total * 3 + 4),
                    mode: Mode18::Read {
                        values,
                        cut,
                        bit_kind: RdKind::ALL[rng.below(5) as usize],
                        stream_e,
                    },
                }
            }
            _ => {
                let k = rng.usize_range(1, 6);
                let strings = (0..k)
                    .map(|_| {
                        let len = match rng.below(4) {
                            0 => 1,
                            1 => rng.usize_range(1, 3),
                            _ => rng.usize_range(1, 9),
                        };
                        let mut st: Vec<u8> = (0..len).map(|_| rng.next() as u8).collect();
                        // continuation bit on all bytes but the terminator (BE: last; LE: last)
                        for b in st.iter_mut() {
                            *b |= 0x80;
                        }
                        let l = st.len() - 1;
                        st[l] &= 0x7F;
                        st
                    })
                    .collect();
                S18 {
                    var,
                    plan: FaultPlan::none(),
                    mode: Mode18::Complete { strings },
                }
            }
        }
    }

    fn exec(s: &S18, ctx: &mut Ctx) {
        match &s.mode {
            Mode18::Write { values, word, stream_e } => run_write(s, values, *word, *stream_e, ctx),
            Mode18::Read { values, cut, bit_kind, stream_e } => run_read(s, values, *cut, *bit_kind, *stream_e, ctx),
            Mode18::Complete { strings } => run_complete(s, strings, ctx),
        }
    }

    fn shrink(s: &S18) -> Vec<S18> {
        let mut out = Vec::new();
        match &s.mode {
            Mode18::Write { values, word, stream_e } => {
                for v in shrink_list(values) {
                    if !v.is_empty() {
                        out.push(S18 { mode: Mode18::Write { values: v, word: *word, stream_e: *stream_e }, ..s.clone() });
                    }
                }
                for (i, v) in values.iter().enumerate() {
                    for u in shrink_u64(*v) {
                        let mut vs = values.clone();
                        vs[i] = u;
                        out.push(S18 { mode: Mode18::Write { values: vs, word: *word, stream_e: *stream_e }, ..s.clone() });
                    }
                }
            }
            Mode18::Read { values, cut, bit_kind, stream_e } => {
                for v in shrink_list(values) {
                    if !v.is_empty() {
                        out.push(S18 { mode: Mode18::Read { values: v, cut: *cut, bit_kind: *bit_kind, stream_e: *stream_e }, ..s.clone() });
                    }
                }
                for (i, v) in values.iter().enumerate() {
                    for u in shrink_u64(*v) {
                        let mut vs = values.clone();
                        vs[i] = u;
                        out.push(S18 { mode: Mode18::Read { values: vs, cut: *cut, bit_kind: *bit_kind, stream_e: *stream_e }, ..s.clone() });
                    }
                }
                if let Some(c) = cut {
                    for k in shrink_usize(*c) {
                        out.push(S18 { mode: Mode18::Read { values: values.clone(), cut: Some(k), bit_kind: *bit_kind, stream_e: *stream_e }, ..s.clone() });
                    }
                    out.push(S18 { mode: Mode18::Read { values: values.clone(), cut: None, bit_kind: *bit_kind, stream_e: *stream_e }, ..s.clone() });
                }
            }
            Mode18::Complete { strings } => {
                for v in shrink_list(strings) {
                    if !v.is_empty() {
                        out.push(S18 { mode: Mode18::Complete { strings: v }, ..s.clone() });
                    }
                }
            }
        }
        for plan in s.plan.shrink(10) {
            out.push(S18 { plan, ..s.clone() });
        }
        out
    }

    fn rule() -> &'static str {
        "one case = (variant {vbyte_*_be, vbyte_*_le, generic entry with BE, generic entry with LE}, fault class {fault-free, benign: Short(1..9)/Interrupted at 3-40% of calls, faulting: plus one Ok(0) or hard error or a full device}, mode {write 1-8 values to SimDisk and compare with the bytes of the bit-stream VByte trait on a writer of a random word size and stream endianness; read the values back from a device optionally truncated at a random byte, and through a bit reader; decode-then-re-encode 1-6 random terminated byte strings of length 1..9}); values: < 2^21, every length-step boundary +-2, 2^64-1.., small, random bit length. distinct_nontrivial = distinct (variant, encoded length, fault class, mode/inside-outside) signatures"
    }

    fn components() -> (Vec<&'static str>, Vec<&'static str>) {
        (
            vec!["vbyte_write, vbyte_write_be, vbyte_write_le", "vbyte_read, vbyte_read_be, vbyte_read_le", "byte_len_vbyte", "VByteBeWrite/VByteLeWrite/VByteBeRead/VByteLeRead on bit streams"],
            vec!["SimDisk"],
        )
    }

    fn required_probes(_t: Tier) -> Vec<&'static str> {
        vec!["c18.ten_byte_value", "c18.write_error_surfaced", "c18.read_error_surfaced", "c18.eof_inside_value"]
    }

    fn runs(t: Tier) -> u64 {
        match t {
            Tier::Quick => 4_000_000,
            Tier::Thorough => 300_000_000,
        }
    }

    fn level() -> &'static str {
        "fault_enumeration"
    }

    fn assumptions() -> Vec<&'static str> {
        vec![
            "the value dimension is seeded sampling biased to the length steps, not the exhaustive sweep below 2^21 the quantifier mentions",
            "terminated strings are limited to 9 bytes so that the value always fits in 64 bits",
        ]
    }
}
