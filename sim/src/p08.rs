//! C08 — bulk copy moves exactly n bits and leaves both streams intact.
//!
//! Two parties in one history: a source reader (REAL BufBitReader u8..u64 /
//! BitReader) with a pre-history that includes look-ahead (peeks, table reads),
//! so that more than one word may be buffered, and a destination writer (REAL
//! BufBitWriter u8..u128) pre-filled to an arbitrary level. copy_to / copy_from
//! of n bits (0..several words, biased to buffer fill +-1, W, 64, 65, 2W+1),
//! then continuation on both sides: reads, peeks, table reads, unary, further
//! copies, writes, close.
//! Oracle: destination image = model (previous bits || the source's next n bits
//! || later writes); the source advanced by exactly n; every continuation value
//! equals the model — as if the bits had moved one at a time.

use crate::bits::*;
use crate::fw::*;
use crate::model::{BitModel, En};
use crate::p01::{WOp1, CLEAN_ARGS};
use crate::rng::Rng;
use crate::rsim::*;
use serde::{Deserialize, Serialize};
use std::mem::ManuallyDrop;
use std::sync::atomic::Ordering;

#[derive(Clone, Debug, PartialEq, Eq, Serialize, Deserialize)]
pub enum Op8 {
    R(ROp),
    /// gamma read through the decoding table, where a valid gamma starts here
    GammaTab,
    W(WOp1),
    /// copy n bits; to=true: reader.copy_to(writer), false: writer.copy_from(reader)
    Copy {
        to: bool,
        n: u64,
        /// 0: the method of the concrete type; 1: the trait's default method, through a
        /// pass-through wrapper around the reader (copy_to) / the writer (copy_from)
        #[serde(default)]
        via: u8,
    },
}

#[derive(Clone, Debug, Serialize, Deserialize)]
pub struct S08 {
    pub e: En,
    pub rkind: RdKind,
    pub strict: bool,
    pub pattern: Pattern,
    pub image: Vec<u8>,
    pub wword: Wd,
    pub ops: Vec<Op8>,
    /// scale scenario (zero run / unary part / copy of 2^32 bits over the sparse stubs)
    #[serde(default)]
    pub giant: Option<crate::giant::Giant>,
    /// strict sources only, after the last op: a copy (to / from) of `extra` more bits than the
    /// source still holds. It must fail, and the failure must not damage what the destination
    /// had received before: the caller handles the error and goes on writing
    #[serde(default)]
    pub past_end: Option<(bool, u64)>,
}

pub struct C08;

fn gamma_at(m: &BitModel, e: En, pos: usize) -> Option<(u64, usize)> {
    let z = m.unary_at(pos)? as usize;
    if z > 63 {
        return None;
    }
    let low = m.get_bits(e, pos + z + 1, z);
    Some(((1u64 << z) - 1 + low, 2 * z + 1))
}

impl Family for C08 {
    type Scn = S08;
    const ID: &'static str = "C08";

    fn gen(rng: &mut Rng, _tier: Tier, index: u64) -> S08 {
        let e = if index % 2 == 0 { En::BE } else { En::LE };
        let rkind = RdKind::ALL[((index / 2) % 5) as usize];
        let wword = Wd::ALL[((index / 10) % 5) as usize];
        let strict = (index / 50) % 2 == 1;
        let pattern = PATTERNS[rng.below(5) as usize];
        if crate::giant::is_giant_index(index) {
            // (the index selects the endianness above: draw it anew, giant indices are all odd)
            let e = if rng.chance(1, 2) { En::BE } else { En::LE };
            let g = crate::giant::unary_only(crate::giant::gen_giant(rng));
            return S08 {
                e,
                rkind: g.rkind,
                strict: true,
                pattern,
                image: Vec::new(),
                wword: g.wword,
                ops: Vec::new(),
                giant: Some(g),
                past_end: None,
            };
        }
        let rwb = rkind.word_bits();
        let wwb = wword.bits();
        // scale: one run in 200 copies more than 2^16 bits out of a ~12 KiB image
        let big = rng.chance(1, 200);
        let nbytes = if big { 12_288 } else { (rng.usize_range(4, 40) * rwb / 8).min(320).max(32) };
        let image = gen_image(rng, pattern, nbytes);
        let nops = rng.usize_range(1, 14);
        let mut ops = Vec::new();
        let rop = |rng: &mut Rng| -> Op8 {
            match rng.below(6) {
                0 | 1 => Op8::R(ROp::Peek(rng.usize_range(1, rkind.max_peek()))),
                2 => Op8::R(ROp::Bits(*rng.pick(&[0usize, 1, 3, rwb.min(64) - 1, rwb.min(64), 64, 17]))),
                3 => Op8::R(ROp::Skip(rng.usize_range(0, rwb + 2))),
                4 => Op8::GammaTab,
                _ => Op8::R(ROp::Unary),
            }
        };
        let wop = |rng: &mut Rng| -> Op8 {
            match rng.below(5) {
                0 | 1 => {
                    let n = *rng.pick(&[0usize, 1, 5, wwb.min(64) - 1, wwb.min(64), 63, 64, 11]);
                    Op8::W(WOp1::Bits { v: rng.next(), n })
                }
                2 => Op8::W(WOp1::Bits { v: rng.next(), n: rng.usize_range(0, 64) }),
                3 => Op8::W(WOp1::Unary { x: rng.below(wwb as u64 + 3) }),
                _ => Op8::W(WOp1::Flush),
            }
        };
        let copy = |rng: &mut Rng| -> Op8 {
            let n = match rng.below(10) {
                0 => 0,
                1 => rng.range(1, 8),
                2 => *rng.pick(&[rwb as u64 - 1, rwb as u64, rwb as u64 + 1]),
                3 => *rng.pick(&[wwb as u64 - 1, wwb as u64, wwb as u64 + 1]),
                4 => *rng.pick(&[63u64, 64, 65]),
                5 => *rng.pick(&[2 * rwb as u64 - 1, 2 * rwb as u64, 2 * rwb as u64 + 1]),
                6 => *rng.pick(&[2 * wwb as u64 + 1, 3 * wwb as u64, 129]),
                _ => {
                    if big && rng.chance(1, 2) {
                        rng.range(65_000, 90_000)
                    } else {
                        rng.range(0, 300)
                    }
                }
            };
            Op8::Copy { to: rng.chance(1, 2), n, via: rng.chance(1, 4) as u8 }
        };
        // pre-history; one run in six starts from the maximal buffer fill 2W-1 (one bit
        // read, then a full-width peek), optionally reduced by a few bits
        if rkind.buffered() && rng.chance(1, 6) {
            ops.push(Op8::R(ROp::Bits(1)));
            ops.push(Op8::R(ROp::Peek(rkind.max_peek())));
            if rng.chance(1, 2) {
                ops.push(Op8::R(ROp::Bits(rng.usize_range(0, 3))));
            }
            let f = 2 * rwb as u64 - 1;
            ops.push(Op8::Copy {
                to: rng.chance(3, 4),
                n: *rng.pick(&[f - 2, f - 1, f, f + 1, f + rwb as u64, 1, 0]),
                via: rng.chance(1, 5) as u8,
            });
        }
        for _ in 0..rng.usize_range(0, 4) {
            ops.push(rop(rng));
        }
        for _ in 0..rng.usize_range(0, 3) {
            ops.push(wop(rng));
        }
        if rng.chance(2, 3) {
            // look-ahead right before the copy
            ops.push(Op8::R(ROp::Peek(rng.usize_range(1, rkind.max_peek()))));
        }
        ops.push(copy(rng));
        for _ in 0..nops {
            ops.push(match rng.below(8) {
                0..=3 => rop(rng),
                4 | 5 => wop(rng),
                _ => copy(rng),
            });
        }
        S08 {
            e,
            rkind,
            strict,
            pattern,
            image,
            wword,
            ops,
            giant: None,
            past_end: if strict && rng.chance(1, 4) { Some((rng.chance(1, 2), rng.range(1, 3 * rwb as u64))) } else { None },
        }
    }

    fn exec(s: &S08, ctx: &mut Ctx) {
        if let Some(g) = &s.giant {
            return crate::giant::giant_copy(s.e, g, ctx);
        }
        let e = s.e;
        let rb = if s.strict { RdBackend::MemStrict } else { RdBackend::MemInf };
        let mut sim = RSim::new("C08", e, s.rkind, &rb, &s.image);
        let (w, h) = AnyWriter::new(e, s.wword, &WrBackend::Rec { refuse_at: None });
        let mut w = ManuallyDrop::new(w);
        let mut wm = BitModel::new();
        let wwb = s.wword.bits();
        let rwb = s.rkind.word_bits();
        let clean = CLEAN_ARGS.load(Ordering::Relaxed);
        let base_tags = |sim: &RSim, op: &str| -> Vec<String> {
            let mut t = sim.tags(op);
            t.push(format!("wword={:?}", s.wword));
            t
        };
        let check_dest = |ctx: &mut Ctx, wm: &BitModel, i: usize, what: &str| -> bool {
            let delivered = h.delivered_bytes();
            let img = wm.to_bytes(e);
            let whole = wm.len() / wwb * (wwb / 8);
            if delivered.len() > whole || delivered[..] != img[..delivered.len()] {
                ctx.fail(
                    "C08.dest_image",
                    format!(
                        "after op #{} ({}): destination words delivered so far {:02x?} are not a prefix of the expected image {:02x?}",
                        i, what, delivered, &img[..whole.min(img.len())]
                    ),
                );
                return false;
            }
            true
        };
        let mut copies = 0u64;
        for (i, op) in s.ops.iter().enumerate() {
            if ctx.failed() || sim.dead {
                break;
            }
            match op {
                Op8::R(r) => {
                    // keep within the data on strict backends; unary only if a one is ahead
                    let r2 = match r {
                        ROp::Bits(n) | ROp::Skip(n) | ROp::Peek(n) if !sim.in_data(*n) => continue,
                        ROp::Unary => match sim.model.unary_at(sim.pos) {
                            Some(_) => ROp::Unary,
                            None => continue,
                        },
                        other => other.clone(),
                    };
                    let mut t = base_tags(&sim, &r2.name());
                    t.push(format!("after_copies={}", copies.min(1)));
                    ctx.step(t);
                    sim.sig(ctx, &r2, copies.min(2), 8);
                    match sim.step(ctx, i, &r2) {
                        StepOut::Ok => {}
                        _ => break,
                    }
                }
                Op8::GammaTab => {
                    if s.rkind == RdKind::B8 {
                        continue; // diagnosed: u8 readers cannot serve the gamma table
                    }
                    let Some((v, l)) = gamma_at(&sim.model, e, sim.pos) else { continue };
                    if !sim.in_data(l) {
                        continue;
                    }
                    let mut t = base_tags(&sim, "read_gamma_table");
                    t.push(format!("after_copies={}", copies.min(1)));
                    ctx.step(t);
                    ctx.probe_if(copies > 0, "c08.table_read_after_copy");
                    match sim.step(ctx, i, &ROp::Code { code: Code::Gamma, tab: 1, exp: Some((v, l)) }) {
                        StepOut::Ok => {}
                        _ => break,
                    }
                }
                Op8::W(wop) => {
                    ctx.ops += 1;
                    match wop {
                        WOp1::Bits { v, n } => {
                            ctx.step(base_tags(&sim, "write_bits"));
                            let v = if clean { crate::items::mask(*v, *n) } else { *v };
                            match guard(|| w.write_bits(v, *n)) {
                                Ok(Ok(k)) => {
                                    ctx.ev(k as u64);
                                    wm.push_bits(e, v, *n);
                                }
                                Ok(Err(er)) => return ctx.fail("C08.spurious_error", format!("write_bits failed: {}", er)),
                                Err(p) => return ctx.fail("C08.panic", format!("op #{} write_bits panicked: {}", i, p)),
                            }
                            if !check_dest(ctx, &wm, i, "write_bits") {
                                return;
                            }
                        }
                        WOp1::Unary { x } => {
                            ctx.step(base_tags(&sim, "write_unary"));
                            match guard(|| w.write_unary(*x)) {
                                Ok(Ok(k)) => {
                                    ctx.ev(k as u64);
                                    wm.push_unary(*x);
                                }
                                Ok(Err(er)) => return ctx.fail("C08.spurious_error", format!("write_unary failed: {}", er)),
                                Err(p) => return ctx.fail("C08.panic", format!("op #{} write_unary panicked: {}", i, p)),
                            }
                            if !check_dest(ctx, &wm, i, "write_unary") {
                                return;
                            }
                        }
                        WOp1::Flush => {
                            ctx.step(base_tags(&sim, "flush"));
                            match guard(|| w.flush()) {
                                Ok(Ok(k)) => {
                                    ctx.ev(k as u64);
                                    wm.pad_to_multiple(wwb);
                                }
                                Ok(Err(er)) => return ctx.fail("C08.spurious_error", format!("flush failed: {}", er)),
                                Err(p) => return ctx.fail("C08.panic", format!("op #{} flush panicked: {}", i, p)),
                            }
                            if !check_dest(ctx, &wm, i, "flush") {
                                return;
                            }
                        }
                    }
                }
                Op8::Copy { to, n, via } => {
                    let n = if sim.zero_ext {
                        *n
                    } else {
                        (*n).min((sim.data_bits - sim.pos.min(sim.data_bits)) as u64)
                    };
                    let mut t = base_tags(
                        &sim,
                        match (*to, *via) {
                            (true, 0) => "copy_to",
                            (false, 0) => "copy_from",
                            (true, _) => "default_copy_to",
                            (false, _) => "default_copy_from",
                        },
                    );
                    ctx.probe_if(*via != 0, "c08.trait_default_copy");
                    let fill = sim.fill();
                    let space = wwb - wm.len() % wwb;
                    if let Some(f) = fill {
                        ctx.probe_if(f > rwb, "c08.copy_with_more_than_a_word_buffered");
                        ctx.probe_if(f > 64, "c08.copy_with_more_than_64_bits_buffered");
                        ctx.probe_if(n as usize > f, "c08.copy_n_above_buffer");
                        t.push(format!("fill_gt_word={}", (f > rwb) as u8));
                    }
                    ctx.probe_if(n > 64, "c08.copy_n_above_64");
                    ctx.probe_if(n == 0, "c08.copy_zero");
                    ctx.probe_if(s.wword == Wd::U128 && n as usize >= space + 128, "c08.copy_whole_u128_words");
                    ctx.step(t);
                    ctx.ops += 1;
                    ctx.sig(&[
                        88,
                        e as u64,
                        s.rkind as u64,
                        s.wword as u64,
                        *to as u64 + 2 * *via as u64,
                        fill.map(|f| f as u64).unwrap_or(999),
                        space as u64,
                        n.min(300),
                    ]);
                    let r = match (*to, *via) {
                        (true, 0) => guard(|| sim.r.copy_to(&mut w, n)),
                        (false, 0) => guard(|| w.copy_from(&mut sim.r, n)),
                        (true, _) => guard(|| sim.r.copy_to_default(&mut w, n)),
                        (false, _) => guard(|| w.copy_from_default(&mut sim.r, n)),
                    };
                    ctx.tr(|| format!("#{} copy(to={}, n={}) src@{} fill {:?} dst bits {} -> {:?}", i, to, n, sim.pos, fill, wm.len(), r));
                    match r {
                        Ok(Ok(())) => {}
                        Ok(Err(er)) => {
                            return ctx.fail(
                                "C08.spurious_error",
                                format!("op #{} copy of {} bits (all within the data) failed: {}", i, n, er),
                            )
                        }
                        Err(p) => {
                            return ctx.fail(
                                "C08.panic",
                                format!("op #{} copy(to={}) of {} bits (source buffer fill {:?}) panicked: {}", i, to, n, fill, p),
                            )
                        }
                    }
                    // model: the source's next n bits move to the destination
                    for k in 0..n as usize {
                        wm.bits.push(sim.model.bit(sim.pos + k));
                    }
                    sim.pos += n as usize;
                    copies += 1;
                    ctx.progressed = true;
                    ctx.ev(n);
                    if !check_dest(ctx, &wm, i, "copy") {
                        return;
                    }
                }
            }
        }
        if ctx.failed() {
            return;
        }
        if let (Some((to, extra)), true, false) = (s.past_end, s.strict, sim.dead) {
            let remaining = (sim.data_bits - sim.pos.min(sim.data_bits)) as u64;
            let n = remaining + extra.max(1);
            ctx.step(base_tags(&sim, if to { "copy_to_past_the_end" } else { "copy_from_past_the_end" }));
            ctx.ops += 1;
            let r = if to { guard(|| sim.r.copy_to(&mut w, n)) } else { guard(|| w.copy_from(&mut sim.r, n)) };
            match r {
                Ok(Err(_)) => {}
                Ok(Ok(())) => {
                    return ctx.fail(
                        "C08.fabricated",
                        format!("a copy of {} bits from a strict source holding {} more bits returned Ok", n, remaining),
                    )
                }
                Err(p) => return ctx.fail("C08.panic", format!("copy of {} bits past the end of the source panicked: {}", n, p)),
            }
            ctx.probe("c08.copy_past_the_end_fails");
            // the caller handles the error and goes on writing: whatever the destination had
            // received before the failed copy is still there, unaltered
            match guard(|| {
                w.write_bits(0x5A, 8)?;
                w.flush()
            }) {
                Ok(Ok(_)) => {}
                Ok(Err(er)) => return ctx.fail("C08.spurious_error", format!("write after a failed copy failed: {}", er)),
                Err(p) => return ctx.fail("C08.panic", format!("write after a failed copy panicked: {}", p)),
            }
            let got = BitModel::from_bytes(e, &h.delivered_bytes());
            let keep = wm.len();
            if got.len() < keep || got.bits[..keep] != wm.bits[..] {
                let gb = h.delivered_bytes();
                return ctx.fail(
                    "C08.dest_damaged_by_failed_copy",
                    format!(
                        "the destination held {} bits {:02x?} before a copy of {} bits failed at the end of the source; after one more write and a flush it holds {:02x?}: the earlier bits were altered",
                        keep,
                        wm.to_bytes(e),
                        n,
                        gb
                    ),
                );
            }
            ctx.progressed = true;
            let _ = guard(|| unsafe { ManuallyDrop::drop(&mut w) });
            return;
        }
        // close the destination and compare the whole image
        ctx.step(base_tags(&sim, "close"));
        match guard(|| w.flush()) {
            Ok(Ok(_)) => {}
            Ok(Err(er)) => return ctx.fail("C08.spurious_error", format!("final flush failed: {}", er)),
            Err(p) => return ctx.fail("C08.panic", format!("final flush panicked: {}", p)),
        }
        wm.pad_to_multiple(wwb);
        let exp = wm.to_bytes(e);
        let got = h.delivered_bytes();
        ctx.ev_bytes(&got);
        if got != exp {
            ctx.fail(
                "C08.dest_image",
                format!("final destination image {:02x?} differs from the expected {:02x?}", got, exp),
            );
        }
        let _ = guard(|| unsafe { ManuallyDrop::drop(&mut w) });
    }

    fn shrink(s: &S08) -> Vec<S08> {
        let mut out = Vec::new();
        if let Some(g) = &s.giant {
            for g2 in crate::giant::shrink_giant(g) {
                out.push(S08 { giant: Some(g2), ..s.clone() });
            }
            return out;
        }
        for ops in shrink_list(&s.ops) {
            out.push(S08 { ops, ..s.clone() });
        }
        if s.past_end.is_some() {
            out.push(S08 { past_end: None, ..s.clone() });
        }
        for (i, op) in s.ops.iter().enumerate() {
            let alts: Vec<Op8> = match op {
                Op8::Copy { to, n, via } => {
                    let mut v: Vec<Op8> = shrink_u64(*n).into_iter().map(|m| Op8::Copy { to: *to, n: m, via: *via }).collect();
                    if *via != 0 {
                        v.push(Op8::Copy { to: *to, n: *n, via: 0 });
                    }
                    v
                }
                Op8::R(ROp::Bits(n)) => shrink_usize(*n).into_iter().map(|m| Op8::R(ROp::Bits(m))).collect(),
                Op8::R(ROp::Skip(n)) => shrink_usize(*n).into_iter().map(|m| Op8::R(ROp::Skip(m))).collect(),
                Op8::R(ROp::Peek(n)) => shrink_usize(*n).into_iter().filter(|m| *m > 0).map(|m| Op8::R(ROp::Peek(m))).collect(),
                Op8::W(WOp1::Bits { v, n }) => shrink_usize(*n).into_iter().map(|m| Op8::W(WOp1::Bits { v: *v, n: m })).collect(),
                Op8::W(WOp1::Unary { x }) => shrink_u64(*x).into_iter().map(|y| Op8::W(WOp1::Unary { x: y })).collect(),
                _ => vec![],
            };
            for a in alts {
                let mut t = s.clone();
                t.ops[i] = a;
                out.push(t);
            }
        }
        let wbytes = s.rkind.word_bits() / 8;
        if s.image.len() > 4 * wbytes {
            let mut t = s.clone();
            t.image.truncate(s.image.len() - wbytes);
            out.push(t);
        }
        if s.strict {
            out.push(S08 { strict: false, ..s.clone() });
        }
        for i in (0..s.image.len()).rev() {
            if s.image[i] != 0 && out.len() < 500 {
                let mut t = s.clone();
                t.image[i] = 0;
                out.push(t);
            }
        }
        out
    }

    fn long_running(s: &S08) -> bool {
        s.giant.is_some()
    }

    fn rule() -> &'static str {
        "one case = (endianness, source reader {buffered u8..u64, unbuffered} over a strict or zero-extended memory image of one of 5 patterns, destination writer word u8..u128 over a recording sink, history: 0-4 source ops incl. peeks and gamma-table reads, 0-3 destination writes, usually a peek, a copy (copy_to or copy_from, n among 0, 1..8, reader W-1/W/W+1, writer W-1/W/W+1, 63/64/65, 2W-1/2W/2W+1, 2*writerW+1, 129, random <=300), then 1-14 continuation ops: reads, peeks, unary, table reads, writes, flushes, further copies; final flush). distinct_nontrivial = distinct (endianness, reader, writer word, direction, measured source buffer fill, free bits in the destination buffer, n) copy signatures plus reader-op signatures after 0/1/2+ copies Scale scenarios: one run in 200-400 has several hundred operations or a zero run / unary part / copy / skip / slice above 2^16 bits; one run in 100 000 (sim/src/giant.rs) has a copy (copy_to or copy_from) of more than 2^32 bits from a sparse zero-run source to a sparse recording sink. A quarter of the copies goes through the traits' DEFAULT copy_to / copy_from (a pass-through wrapper around the reader / the writer, standing for a user-defined stream)."
    }

    fn components() -> (Vec<&'static str>, Vec<&'static str>) {
        (
            vec!["BufBitReader::copy_to BE/LE (specialised or generic, per build)", "BufBitWriter::copy_from BE/LE", "BitRead::copy_to / BitWrite::copy_from generic", "BitReader", "peek_bits / table readers after a copy"],
            vec!["recording word sink", "sparse recording word sink and sparse zero-run word source (scale scenarios)"],
        )
    }

    fn required_probes(_t: Tier) -> Vec<&'static str> {
        vec![
            "c08.copy_past_the_end_fails",
            "c08.trait_default_copy",
            "scale.giant_copy",
            "c08.copy_with_more_than_a_word_buffered",
            "c08.copy_with_more_than_64_bits_buffered",
            "c08.copy_n_above_buffer",
            "c08.copy_n_above_64",
            "c08.copy_zero",
            "c08.copy_whole_u128_words",
            "c08.table_read_after_copy",
        ]
    }

    fn runs(t: Tier) -> u64 {
        match t {
            Tier::Quick => 3_000_000,
            Tier::Thorough => 200_000_000,
        }
    }

    fn assumptions() -> Vec<&'static str> {
        vec!["u8 readers do not use the (diagnosed) gamma table", "copies on strict sources are clipped to the data"]
    }
}
