#![allow(dead_code, unused_imports, clippy::all)]
//! Deterministic simulation with fault injection for dsi-bitstream-rs.
//! See /verif/DESIGN.md.

mod backends;
mod bits;
mod driver;
mod fw;
mod model;
mod rng;
mod simdisk;

mod p01;
mod p02;
mod p03;
mod p05;
mod p07;
mod p08;
mod p09;
mod items;
mod giant;
mod p11;
mod p12;
mod rsim;
mod p13;
mod p14;
#[cfg(dsi_bitstream_verif_shuttle)]
mod p15;
mod p18;
mod p19;

use driver::*;

pub fn fw_hash(s: &str) -> u64 {
    rng::fnv1a(s.as_bytes())
}
use fw::*;
use std::path::PathBuf;

macro_rules! families {
    ($id:expr, $f:ident => $body:expr) => {
        match $id {
            "C01" => {
                type $f = p01::C01;
                $body
            }
            "C02" => {
                type $f = p02::C02;
                $body
            }
            "C03" => {
                type $f = p03::C03;
                $body
            }
            "C05" => {
                type $f = p05::C05;
                $body
            }
            "C07" => {
                type $f = p07::C07;
                $body
            }
            "C08" => {
                type $f = p08::C08;
                $body
            }
            "C09" => {
                type $f = p09::C09;
                $body
            }
            "C11" => {
                type $f = p11::C11;
                $body
            }
            "C12" => {
                type $f = p12::C12;
                $body
            }
            "C13" => {
                type $f = p13::C13;
                $body
            }
            "C14" => {
                type $f = p14::C14;
                $body
            }
            #[cfg(dsi_bitstream_verif_shuttle)]
            "C15" => {
                type $f = p15::C15;
                $body
            }
            "C19W" => {
                type $f = p19::C19W;
                $body
            }
            "C18" => {
                type $f = p18::C18;
                $body
            }
            other => {
                println!("HARNESS-ERROR unknown property {}", other);
                std::process::exit(2);
            }
        }
    };
}

fn arg_val(args: &[String], name: &str) -> Option<String> {
    args.iter().position(|a| a == name).and_then(|i| args.get(i + 1).cloned())
}

fn main() {
    let args: Vec<String> = std::env::args().collect();
    if args.len() < 3 {
        eprintln!("usage: sim <check|worker|replay|replay-child|minimise-child|digest> <PROP> ...");
        std::process::exit(2);
    }
    let cmd = args[1].as_str();
    let prop = args[2].as_str();
    let verif_dir = PathBuf::from(std::env::var("VERIF_DIR").unwrap_or_else(|_| "/verif".to_string()));
    let seed: u64 = arg_val(&args, "--seed")
        .or_else(|| std::env::var("VERIF_SEED").ok())
        .and_then(|s| s.trim().parse::<u64>().ok())
        .unwrap_or(DEFAULT_SEED);
    let tier = match arg_val(&args, "--tier")
        .or_else(|| std::env::var("VERIF_TIER").ok())
        .as_deref()
    {
        Some("thorough") => Tier::Thorough,
        _ => Tier::Quick,
    };
    let code = match cmd {
        "check" => {
            let opts = Opts {
                seed,
                tier,
                runs: arg_val(&args, "--runs").and_then(|s| s.parse().ok()),
                workers: arg_val(&args, "--workers")
                    .and_then(|s| s.parse().ok())
                    .unwrap_or_else(|| std::thread::available_parallelism().map(|n| n.get()).unwrap_or(8)),
                verif_dir,
                no_evidence: args.iter().any(|a| a == "--no-evidence"),
            };
            families!(prop, F => parent::<F>(&opts))
        }
        "worker" => {
            let from: u64 = arg_val(&args, "--from").and_then(|s| s.parse().ok()).unwrap_or(0);
            let to: u64 = arg_val(&args, "--to").and_then(|s| s.parse().ok()).unwrap_or(0);
            let trace_idx = args.iter().any(|a| a == "--trace-idx");
            let digests = args.iter().any(|a| a == "--digests");
            if args.iter().any(|a| a == "--clean") {
                p01::CLEAN_ARGS.store(true, std::sync::atomic::Ordering::Relaxed);
            }
            let skip: Vec<u64> = arg_val(&args, "--skip").map(|s| s.split(',').filter_map(|x| x.parse().ok()).collect()).unwrap_or_default();
            families!(prop, F => worker::<F>(seed, tier, from, to, trace_idx, digests, &skip));
            0
        }
        "replay" => {
            let path = PathBuf::from(&args[3]);
            if args.iter().any(|a| a == "--verbose") {
                families!(prop, F => replay_child::<F>(&path, true))
            } else {
                replay_parent(prop, &path, &verif_dir)
            }
        }
        "replay-child" => {
            let path = PathBuf::from(&args[3]);
            families!(prop, F => replay_child::<F>(&path, false))
        }
        "minimise-child" => {
            let inp = PathBuf::from(&args[3]);
            let outp = PathBuf::from(&args[4]);
            let budget: u64 = args.get(5).and_then(|s| s.parse().ok()).unwrap_or(1500);
            families!(prop, F => minimise_child::<F>(&inp, &outp, budget))
        }
        "diag-probe" => {
            p05::diag_probe_child();
            0
        }
        "digests" => {
            // D <index> <digest> <oracle or ->, one line per run (C19 configuration replay)
            let from: u64 = arg_val(&args, "--from").and_then(|s| s.parse().ok()).unwrap_or(0);
            let to: u64 = arg_val(&args, "--to").and_then(|s| s.parse().ok()).unwrap_or(0);
            if args.iter().any(|a| a == "--clean") {
                p01::CLEAN_ARGS.store(true, std::sync::atomic::Ordering::Relaxed);
            }
            install_panic_hook();
            families!(prop, F => {
                use std::io::Write;
                let out = std::io::stdout();
                let mut out = out.lock();
                for i in from..to {
                    let s = gen_scenario::<F>(seed, tier, i);
                    if F::long_running(&s) {
                        let _ = writeln!(out, "L {}", i);
                        let _ = out.flush();
                    }
                    let ctx = exec_guarded::<F>(&s, false);
                    let o = ctx.violation.as_ref().map(|v| v.oracle.clone()).unwrap_or_else(|| "-".to_string());
                    let _ = writeln!(out, "D {} {:016x} {} {}", i, ctx.digest, o, ctx.ops);
                    let _ = out.flush();
                }
                0
            })
        }
        "digest-of" => {
            // scenarios (one JSON per line) on stdin -> D <k> <digest> <oracle or ->
            if args.iter().any(|a| a == "--clean") {
                p01::CLEAN_ARGS.store(true, std::sync::atomic::Ordering::Relaxed);
            }
            install_panic_hook();
            families!(prop, F => {
                use std::io::BufRead;
                let stdin = std::io::stdin();
                for (k, line) in stdin.lock().lines().map_while(Result::ok).enumerate() {
                    match serde_json::from_str::<<F as Family>::Scn>(&line) {
                        Ok(s) => {
                            let ctx = exec_guarded::<F>(&s, false);
                            let o = ctx.violation.as_ref().map(|v| v.oracle.clone()).unwrap_or_else(|| "-".to_string());
                            println!("D {} {:016x} {}", k, ctx.digest, o);
                        }
                        Err(e) => println!("E {} {}", k, e),
                    }
                }
                0
            })
        }
        "shrink" => {
            // candidate simplifications of the scenario in the given file, one JSON per line
            families!(prop, F => {
                let txt = std::fs::read_to_string(&args[3]).unwrap_or_default();
                match serde_json::from_str::<<F as Family>::Scn>(&txt) {
                    Ok(s) => {
                        for c in F::shrink(&s) {
                            println!("{}", serde_json::to_string(&c).unwrap());
                        }
                        0
                    }
                    Err(e) => {
                        println!("HARNESS-ERROR {}", e);
                        2
                    }
                }
            })
        }
        "gen" => {
            // print the scenario of run i (debugging aid)
            let i: u64 = arg_val(&args, "--index").and_then(|s| s.parse().ok()).unwrap_or(0);
            families!(prop, F => {
                let s = gen_scenario::<F>(seed, tier, i);
                println!("{}", serde_json::to_string_pretty(&s).unwrap());
                0
            })
        }
        _ => {
            eprintln!("unknown command {}", cmd);
            2
        }
    };
    std::process::exit(code);
}
