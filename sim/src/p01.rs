//! C01 — bit writers emit one canonical byte image, independent of word size.
//!
//! System: the REAL BufBitWriter<BE|LE> over every backend word u8..u128 and
//! backend kind (growable vector, fixed slice, byte-stream adapter over SimDisk
//! directly or through std BufWriter, recording stub). The "crash-like" event is
//! the close at a seed-chosen instant (drop / into_inner / flush;flush;drop /
//! flush;into_inner): only words delivered to the backend survive.
//! Oracle: independent bit-vector model of the documented layout, checked after
//! every operation (return value, delivered words are a prefix of the model
//! image and are never revisited) and after the close (image = model + zero
//! padding to the word boundary, flush idempotent).

use crate::bits::*;
use crate::fw::*;
use crate::model::{BitModel, En};
use crate::rng::Rng;
use crate::simdisk::FaultPlan;
use serde::{Deserialize, Serialize};
use std::mem::ManuallyDrop;
use std::sync::atomic::{AtomicBool, Ordering};

/// When set (C19 digest runs against `checks` builds) fixed-width arguments are
/// masked to their width before the call.
pub static CLEAN_ARGS: AtomicBool = AtomicBool::new(false);

#[derive(Clone, Debug, PartialEq, Eq, Serialize, Deserialize)]
pub enum WOp1 {
    Bits { v: u64, n: usize },
    Unary { x: u64 },
    Flush,
}

#[derive(Clone, Debug, Serialize, Deserialize)]
pub struct S01 {
    pub e: En,
    pub word: Wd,
    pub backend: WrBackend,
    pub ops: Vec<WOp1>,
    pub close: Close,
    /// additionally run the same history on all five word sizes (recording backend)
    pub all_words: bool,
    /// scale scenario (a unary part of 2^32 bits over the sparse recording stub)
    #[serde(default)]
    pub giant: Option<crate::giant::Giant>,
}

fn mask(v: u64, n: usize) -> u64 {
    if n >= 64 {
        v
    } else {
        v & ((1u64 << n) - 1)
    }
}

fn run_one(s: &S01, word: Wd, backend: &WrBackend, ctx: &mut Ctx) {
    let e = s.e;
    let wbits = word.bits();
    let tags = vec![
        format!("e={:?}", e),
        format!("word={:?}", word),
        format!("backend={}", backend.name()),
    ];
    let (w, h) = AnyWriter::new(e, word, backend);
    let mut w = ManuallyDrop::new(w);
    let mut model = BitModel::new();
    let clean = CLEAN_ARGS.load(Ordering::Relaxed);
    let mut prev = 9u64;
    let check_prefix = |ctx: &mut Ctx, model: &BitModel, i: usize, what: &str| -> bool {
        let delivered = h.delivered_bytes();
        let img = model.to_bytes(e);
        let whole = model.len() / wbits * (wbits / 8);
        if delivered.len() > whole {
            ctx.fail(
                "C01.delivered_too_much",
                format!(
                    "after op #{} ({}): backend received {} bytes but only {} whole-word bytes have been written",
                    i,
                    what,
                    delivered.len(),
                    whole
                ),
            );
            return false;
        }
        if delivered[..] != img[..delivered.len()] {
            ctx.fail(
                "C01.image_prefix",
                format!(
                    "after op #{} ({}): words delivered so far {:02x?} are not a prefix of the canonical image {:02x?}",
                    i,
                    what,
                    delivered,
                    &img[..whole]
                ),
            );
            return false;
        }
        true
    };
    for (i, op) in s.ops.iter().enumerate() {
        ctx.ops += 1;
        let mut t = tags.clone();
        let space = wbits - model.len() % wbits;
        match op {
            WOp1::Bits { v, n } => {
                t.push("op=write_bits".into());
                ctx.step(t);
                let v = if clean { mask(*v, *n) } else { *v };
                let rel = if *n < space {
                    0
                } else if *n == space {
                    1
                } else {
                    2 + ((*n - space) / wbits).min(3) as u64
                };
                ctx.sig(&[e as u64, word as u64, 0, space as u64, *n as u64, prev]);
                ctx.cover("wr.space_x_n", (e as u64) << 40 | (word as u64) << 32 | (space as u64) << 8 | *n as u64);
                ctx.probe_if(*n == 64 && space == wbits, "c01.n64_empty_buffer");
                ctx.probe_if(rel >= 4, "c01.bits_span_3_words");
                ctx.probe_if(*n == 0, "c01.n0");
                prev = 0;
                let r = match guard(|| w.write_bits(v, *n)) {
                    Ok(r) => r,
                    Err(p) => return ctx.fail("C01.panic", format!("op #{} write_bits({:#x},{}) panicked: {}", i, v, n, p)),
                };
                ctx.tr(|| format!("#{} write_bits({:#x},{}) -> {:?}", i, v, n, r));
                match r {
                    Ok(k) => {
                        ctx.ev(k as u64);
                        model.push_bits(e, v, *n);
                        ctx.progressed = true;
                        // (the returned length is not part of this property: C06 owns it)
                        let _ = k;
                    }
                    Err(er) => return ctx.fail("C01.spurious_error", format!("op #{} write_bits failed on a fault-free backend: {}", i, er)),
                }
                if !check_prefix(ctx, &model, i, "write_bits") {
                    return;
                }
            }
            WOp1::Unary { x } => {
                t.push("op=write_unary".into());
                ctx.step(t);
                let len = *x as usize + 1;
                let rel = if len < space {
                    0
                } else if len == space {
                    1
                } else {
                    2 + ((len - space) / wbits).min(3) as u64
                };
                ctx.sig(&[e as u64, word as u64, 1, space as u64, rel, (len % wbits) as u64, prev]);
                ctx.cover("wr.space_x_unary_class", (e as u64) << 40 | (word as u64) << 32 | (space as u64) << 8 | rel << 4 | ((len % wbits == 0) as u64));
                ctx.probe_if(rel == 1, "c01.unary_exact_fill");
                ctx.probe_if(rel >= 4, "c01.unary_zero_run_2_words");
                ctx.probe_if(len > space && (len - space) % wbits == 0, "c01.unary_ends_on_boundary");
                prev = 1;
                let r = match guard(|| w.write_unary(*x)) {
                    Ok(r) => r,
                    Err(p) => return ctx.fail("C01.panic", format!("op #{} write_unary({}) panicked: {}", i, x, p)),
                };
                ctx.tr(|| format!("#{} write_unary({}) -> {:?}", i, x, r));
                match r {
                    Ok(k) => {
                        ctx.ev(k as u64);
                        model.push_unary(*x);
                        ctx.progressed = true;
                        let _ = k;
                    }
                    Err(er) => return ctx.fail("C01.spurious_error", format!("op #{} write_unary failed on a fault-free backend: {}", i, er)),
                }
                if !check_prefix(ctx, &model, i, "write_unary") {
                    return;
                }
            }
            WOp1::Flush => {
                t.push("op=flush".into());
                ctx.step(t);
                let pending = model.len() % wbits;
                ctx.sig(&[e as u64, word as u64, 2, pending as u64, prev]);
                ctx.probe_if(pending == 0, "c01.flush_nothing_pending");
                prev = 2;
                let before = h.delivered_words();
                let r = match guard(|| w.flush()) {
                    Ok(r) => r,
                    Err(p) => return ctx.fail("C01.panic", format!("op #{} flush panicked: {}", i, p)),
                };
                ctx.tr(|| format!("#{} flush -> {:?}", i, r));
                match r {
                    Ok(k) => {
                        ctx.ev(k as u64);
                        if k != pending {
                            return ctx.fail(
                                "C01.flush_return",
                                format!("op #{} flush returned {} but {} bits were pending", i, k, pending),
                            );
                        }
                        model.pad_to_multiple(wbits);
                        let after = h.delivered_words();
                        let expect = if pending == 0 { 0 } else { 1 };
                        if after - before != expect {
                            return ctx.fail(
                                "C01.flush_words",
                                format!("op #{} flush with {} pending bits delivered {} words", i, pending, after - before),
                            );
                        }
                    }
                    Err(er) => return ctx.fail("C01.spurious_error", format!("op #{} flush failed on a fault-free backend: {}", i, er)),
                }
                if !check_prefix(ctx, &model, i, "flush") {
                    return;
                }
            }
        }
    }
    // ---- close at this instant
    let mut t = tags.clone();
    t.push(format!("op=close:{:?}", s.close));
    ctx.step(t);
    let pending = model.len() % wbits;
    match s.close {
        Close::Drop => {
            if let Err(p) = guard(|| unsafe { ManuallyDrop::drop(&mut w) }) {
                return ctx.fail("C01.panic", format!("drop panicked: {}", p));
            }
        }
        Close::IntoInner => {
            let ww = unsafe { ManuallyDrop::take(&mut w) };
            match guard(|| ww.into_inner()) {
                Ok(Ok(())) => {}
                Ok(Err(er)) => return ctx.fail("C01.spurious_error", format!("into_inner failed: {}", er)),
                Err(p) => return ctx.fail("C01.panic", format!("into_inner panicked: {}", p)),
            }
        }
        Close::FlushFlushDrop | Close::FlushIntoInner => {
            let r1 = match guard(|| w.flush()) {
                Ok(r) => r,
                Err(p) => return ctx.fail("C01.panic", format!("flush panicked: {}", p)),
            };
            let d1 = h.delivered_words();
            let r2 = match guard(|| w.flush()) {
                Ok(r) => r,
                Err(p) => return ctx.fail("C01.panic", format!("second flush panicked: {}", p)),
            };
            let d2 = h.delivered_words();
            ctx.probe("c01.flush_idempotent_checked");
            match (r1, r2) {
                (Ok(a), Ok(b)) => {
                    if a != pending {
                        return ctx.fail("C01.flush_return", format!("closing flush returned {} but {} bits were pending", a, pending));
                    }
                    if b != 0 || d2 != d1 {
                        return ctx.fail(
                            "C01.flush_idempotent",
                            format!("second flush returned {} and delivered {} more words (must be 0 and 0)", b, d2 - d1),
                        );
                    }
                }
                (a, b) => return ctx.fail("C01.spurious_error", format!("flush failed: {:?} {:?}", a.err(), b.err())),
            }
            if s.close == Close::FlushFlushDrop {
                if let Err(p) = guard(|| unsafe { ManuallyDrop::drop(&mut w) }) {
                    return ctx.fail("C01.panic", format!("drop panicked: {}", p));
                }
            } else {
                let ww = unsafe { ManuallyDrop::take(&mut w) };
                match guard(|| ww.into_inner()) {
                    Ok(Ok(())) => {}
                    Ok(Err(er)) => return ctx.fail("C01.spurious_error", format!("into_inner failed: {}", er)),
                    Err(p) => return ctx.fail("C01.panic", format!("into_inner panicked: {}", p)),
                }
            }
        }
    }
    let data_bits = model.len();
    model.pad_to_multiple(wbits);
    let exp = model.to_bytes(e);
    let delivered = h.delivered_bytes();
    ctx.ev_bytes(&delivered);
    if delivered != exp {
        return ctx.fail(
            "C01.final_image",
            format!(
                "after close ({:?}) the backend received {:02x?}; canonical image of the {} bits written plus zero padding is {:02x?}",
                s.close, delivered, data_bits, exp
            ),
        );
    }
    // the real storage must hold exactly what was delivered
    if let Some(f) = &h.store_bytes {
        let st = f();
        let ok = match backend {
            WrBackend::Vec => st == exp,
            WrBackend::Slice { .. } => {
                ctx.probe_if(st.len() == exp.len() && !exp.is_empty(), "c01.slice_exactly_full");
                st.len() >= exp.len() && st[..exp.len()] == exp[..] && st[exp.len()..].iter().all(|b| *b == SLICE_FILL)
            }
            _ => true,
        };
        if !ok {
            return ctx.fail(
                "C01.storage",
                format!("storage of the {} backend holds {:02x?}, expected image {:02x?}", backend.name(), st, exp),
            );
        }
    }
    if let Some(d) = &h.disk {
        let got = d.borrow().data.clone();
        if got != exp {
            return ctx.fail(
                "C01.storage",
                format!("device behind the {} backend holds {:02x?}, expected image {:02x?}", backend.name(), got, exp),
            );
        }
    }
}

pub struct C01;

fn ctx_unused() {}

pub fn gen_wops(rng: &mut Rng, word: Wd, nops: usize, allow_flush: bool) -> Vec<WOp1> {
    let wbits = word.bits();
    let mut bits = 0usize;
    let mut ops = Vec::with_capacity(nops);
    for _ in 0..nops {
        let space = wbits - bits % wbits;
        let op = match rng.below(20) {
            0..=10 => {
                let n = match rng.below(10) {
                    0 => *rng.pick(&[0usize, 1, 63, 64]),
                    1 => space.min(64),
                    2 => (space + 1).min(64),
                    3 => space.saturating_sub(1).min(64),
                    4 => *rng.pick(&[wbits.min(64), (wbits + 1).min(64), (wbits - 1).min(64)]),
                    5 => 64,
                    _ => rng.usize_range(0, 64),
                };
                // random dirty high bits above n
                let v = match rng.below(4) {
                    0 => u64::MAX,
                    1 => mask(rng.next(), n),
                    _ => rng.next(),
                };
                bits += n;
                WOp1::Bits { v, n }
            }
            11..=17 => {
                let x = match rng.below(10) {
                    0 => 0,
                    1 => (space - 1) as u64,
                    2 => space as u64,
                    3 => (space + wbits - 1) as u64,
                    4 => (space + wbits) as u64,
                    5 => (space + rng.usize_range(1, 4) * wbits).saturating_sub(rng.usize_range(0, 2)) as u64,
                    6 => {
                        if rng.chance(1, 8) {
                            // a long zero run: dozens of words
                            rng.below(40 * wbits as u64).min(3000)
                        } else {
                            rng.below(5 * wbits as u64 + 3)
                        }
                    }
                    _ => rng.below(2 * wbits as u64 + 2),
                };
                bits += x as usize + 1;
                WOp1::Unary { x }
            }
            _ => {
                if allow_flush {
                    bits = bits.div_ceil(wbits) * wbits;
                    WOp1::Flush
                } else {
                    let n = rng.usize_range(0, 64);
                    bits += n;
                    WOp1::Bits { v: rng.next(), n }
                }
            }
        };
        ops.push(op);
    }
    ops
}

pub fn total_bits_upper(ops: &[WOp1]) -> usize {
    ops.iter()
        .map(|o| match o {
            WOp1::Bits { n, .. } => *n,
            WOp1::Unary { x } => *x as usize + 1,
            WOp1::Flush => 128,
        })
        .sum::<usize>()
        + 128
}

impl Family for C01 {
    type Scn = S01;
    const ID: &'static str = "C01";

    fn gen(rng: &mut Rng, _tier: Tier, index: u64) -> S01 {
        let e = if index % 2 == 0 { En::BE } else { En::LE };
        let word = Wd::ALL[((index / 2) % 5) as usize];
        if crate::giant::is_giant_index(index) {
            // (the index selects the endianness above: draw it anew, giant indices are all odd)
            let e = if rng.chance(1, 2) { En::BE } else { En::LE };
            let g = crate::giant::unary_only(crate::giant::gen_giant(rng));
            return S01 {
                e,
                word: g.wword,
                backend: WrBackend::SparseRec,
                ops: Vec::new(),
                close: Close::Drop,
                all_words: false,
                giant: Some(g),
            };
        }
        let nops = match rng.below(4) {
            0 => rng.usize_range(1, 4),
            1 => rng.usize_range(1, 12),
            _ => rng.usize_range(4, 48),
        };
        // scale: one run in 400 has several hundred operations, one in 400 a zero run
        // longer than 2^16 bits
        let scale = rng.below(400);
        let nops = if scale == 0 { rng.usize_range(300, 700) } else { nops };
        let mut ops = gen_wops(rng, word, nops, true);
        if scale == 1 {
            let at = rng.usize_range(0, ops.len());
            ops.insert(at, WOp1::Unary { x: rng.range(65_500, 70_000) });
        }
        // fixed slice: half of the time exactly as many words as the history needs (the last
        // word of the slice is then written by the close), otherwise with slack
        let exact_words = {
            let wb = word.bits();
            let mut bits = 0usize;
            for o in &ops {
                match o {
                    WOp1::Bits { n, .. } => bits += n,
                    WOp1::Unary { x } => bits += *x as usize + 1,
                    WOp1::Flush => bits = bits.div_ceil(wb) * wb,
                }
            }
            bits.div_ceil(wb)
        };
        let cap_words = if rng.chance(1, 2) { exact_words } else { total_bits_upper(&ops) / word.bits() + 2 };
        ctx_unused();
        let backend = match (index / 10) % 5 {
            0 => WrBackend::Rec { refuse_at: None },
            1 => WrBackend::Vec,
            2 => WrBackend::Slice { cap_words },
            3 => WrBackend::Adapter { plan: FaultPlan::none() },
            _ => WrBackend::BufAdapter {
                cap: *rng.pick(&[1usize, 3, 8, 16, 64, 4096]),
                plan: FaultPlan::none(),
            },
        };
        let close = *rng.pick(&[Close::Drop, Close::IntoInner, Close::FlushFlushDrop, Close::FlushIntoInner]);
        S01 {
            e,
            word,
            backend,
            ops,
            close,
            all_words: rng.chance(1, 4),
            giant: None,
        }
    }

    fn exec(s: &S01, ctx: &mut Ctx) {
        if let Some(g) = &s.giant {
            return crate::giant::giant_write("C01", s.e, g, ctx);
        }
        run_one(s, s.word, &s.backend, ctx);
        if s.all_words && !ctx.failed() {
            for w in Wd::ALL {
                if w != s.word {
                    run_one(s, w, &WrBackend::Rec { refuse_at: None }, ctx);
                    if ctx.failed() {
                        return;
                    }
                }
            }
        }
    }

    fn shrink(s: &S01) -> Vec<S01> {
        let mut out = Vec::new();
        if let Some(g) = &s.giant {
            for g2 in crate::giant::shrink_giant(g) {
                out.push(S01 { giant: Some(g2), ..s.clone() });
            }
            return out;
        }
        if s.all_words {
            out.push(S01 { all_words: false, ..s.clone() });
            // or: the failing word size alone
            for w in Wd::ALL {
                if w != s.word {
                    out.push(S01 {
                        all_words: false,
                        word: w,
                        backend: WrBackend::Rec { refuse_at: None },
                        ..s.clone()
                    });
                }
            }
        }
        for ops in shrink_list(&s.ops) {
            out.push(S01 { ops, ..s.clone() });
        }
        for (i, op) in s.ops.iter().enumerate() {
            match op {
                WOp1::Bits { v, n } => {
                    for m in shrink_usize(*n) {
                        let mut t = s.clone();
                        t.ops[i] = WOp1::Bits { v: *v, n: m };
                        out.push(t);
                    }
                    for u in [mask(*v, *n), 0, 1, u64::MAX] {
                        if u != *v {
                            let mut t = s.clone();
                            t.ops[i] = WOp1::Bits { v: u, n: *n };
                            out.push(t);
                        }
                    }
                }
                WOp1::Unary { x } => {
                    for y in shrink_u64(*x) {
                        let mut t = s.clone();
                        t.ops[i] = WOp1::Unary { x: y };
                        out.push(t);
                    }
                }
                WOp1::Flush => {}
            }
        }
        if !matches!(s.backend, WrBackend::Rec { .. }) {
            out.push(S01 {
                backend: WrBackend::Rec { refuse_at: None },
                ..s.clone()
            });
        }
        if s.close != Close::Drop {
            out.push(S01 { close: Close::Drop, ..s.clone() });
        }
        out
    }

    fn long_running(s: &S01) -> bool {
        s.giant.is_some()
    }

    fn rule() -> &'static str {
        "one case = (endianness, backend word u8..u128, backend kind {recording stub, growable vector, fixed slice, WordAdapter over SimDisk, WordAdapter over std BufWriter over SimDisk}, history of <=48 write_bits(v,n)/write_unary(x)/flush with n biased to 0,1,63,64, space_left-1/=/+1, W-1/W/W+1 and v with random dirty high bits, unary spanning 0..5 words, close kind at the end of the history {drop, into_inner, flush;flush;drop, flush;into_inner}); a quarter of the runs replays the same history on all five word sizes. distinct_nontrivial = distinct (endianness, word, op kind, free space in the bit buffer before the op, n or unary-length class relative to the free space, previous op kind) signatures Scale scenarios: one run in 200-400 has several hundred operations or a zero run / unary part / copy / skip / slice above 2^16 bits; one run in 100 000 (sim/src/giant.rs) has a unary part of 2^32-2 .. 2^32+137 bits written to a sparse recording sink (only non-zero words and the word count are kept), compared with the non-zero words of the canonical image."
    }

    fn components() -> (Vec<&'static str>, Vec<&'static str>) {
        (
            vec!["BufBitWriter<BE|LE> (write_bits, write_unary, flush, Drop, into_inner)", "MemWordWriterVec", "MemWordWriterSlice", "WordAdapter", "std::io::BufWriter"],
            vec!["recording word sink (RecWordWrite)", "SimDisk (fault-free here)", "sparse recording word sink (scale scenarios)"],
        )
    }

    fn required_probes(_t: Tier) -> Vec<&'static str> {
        vec![
            "scale.giant_unary_written",
            "c01.n64_empty_buffer",
            "c01.bits_span_3_words",
            "c01.unary_exact_fill",
            "c01.unary_zero_run_2_words",
            "c01.unary_ends_on_boundary",
            "c01.flush_nothing_pending",
            "c01.flush_idempotent_checked",
            "c01.slice_exactly_full",
        ]
    }

    fn required_cover(t: Tier) -> Vec<(&'static str, usize)> {
        // (endianness, word W, free bits in the buffer 1..=W, width n 0..=64): 2 x 248 x 65 = 32240 pairs
        match t {
            Tier::Quick => vec![("wr.space_x_n", 30000)],
            Tier::Thorough => vec![("wr.space_x_n", 32240)],
        }
    }

    fn runs(t: Tier) -> u64 {
        match t {
            Tier::Quick => 2_000_000,
            Tier::Thorough => 100_000_000,
        }
    }

    fn assumptions() -> Vec<&'static str> {
        vec!["the bit-vector model follows the documented layout of src/traits/mod.rs", "backends are fault-free in this family (failing sinks are C11's business)"]
    }
}
