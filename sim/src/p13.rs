//! C13 — in-memory word streams behave as an array with a cursor.
//!
//! System: MemWordReader (zero-extended / strict), MemWordWriterSlice,
//! MemWordWriterVec of /repo, word types u8..u128, owned and borrowed storage.
//! The "faults" of this storage seam are reads / writes / seeks beyond the end.
//! Oracle: array + cursor reference model, checked after every operation, and
//! the final contents.

use crate::backends::SimWord;
use crate::bits::Wd;
use crate::fw::*;
use crate::rng::Rng;
use dsi_bitstream::prelude::*;
use serde::{Deserialize, Serialize};

#[derive(Clone, Copy, Debug, PartialEq, Eq, Serialize, Deserialize, Hash)]
pub enum MemKind {
    ReaderInf,
    ReaderStrict,
    Slice,
    Vec,
}

#[derive(Clone, Debug, PartialEq, Eq, Serialize, Deserialize)]
pub enum Op13 {
    Read,
    Write(X128),
    Pos,
    SetPos(u64),
    Len,
    Flush,
    /// readers: continue on a clone of the object (it must be in the same state)
    Clone,
}

#[derive(Clone, Debug, Serialize, Deserialize)]
pub struct S13 {
    pub word: Wd,
    pub kind: MemKind,
    pub borrowed: bool,
    pub init: Vec<X128>,
    pub ops: Vec<Op13>,
}

/// Uniform view over the four device types (harness glue; each method is a
/// direct call of the corresponding trait method of the real type).
trait MemDev<W> {
    fn read(&mut self) -> Option<Result<W, ()>>;
    fn write(&mut self, w: W) -> Option<Result<(), ()>>;
    fn flush(&mut self) -> Option<Result<(), ()>>;
    fn pos(&mut self) -> Result<u64, ()>;
    fn set_pos(&mut self, p: u64) -> Result<(), ()>;
    fn len(&self) -> Option<usize>;
    fn is_empty(&self) -> Option<bool> {
        None
    }
    /// Replace the object by a clone of itself (types that are Clone); false if not cloneable.
    fn replace_with_clone(&mut self) -> bool {
        false
    }
}

impl<W: SimWord, B: AsRef<[W]> + Clone> MemDev<W> for MemWordReader<W, B, true> {
    fn replace_with_clone(&mut self) -> bool {
        let c = self.clone();
        *self = c;
        true
    }
    fn read(&mut self) -> Option<Result<W, ()>> {
        Some(self.read_word().map_err(|_| ()))
    }
    fn write(&mut self, _w: W) -> Option<Result<(), ()>> {
        None
    }
    fn flush(&mut self) -> Option<Result<(), ()>> {
        None
    }
    fn pos(&mut self) -> Result<u64, ()> {
        self.word_pos().map_err(|_| ())
    }
    fn set_pos(&mut self, p: u64) -> Result<(), ()> {
        self.set_word_pos(p).map_err(|_| ())
    }
    fn len(&self) -> Option<usize> {
        None
    }
}
impl<W: SimWord, B: AsRef<[W]> + Clone> MemDev<W> for MemWordReader<W, B, false> {
    fn replace_with_clone(&mut self) -> bool {
        let c = self.clone();
        *self = c;
        true
    }
    fn read(&mut self) -> Option<Result<W, ()>> {
        Some(self.read_word().map_err(|_| ()))
    }
    fn write(&mut self, _w: W) -> Option<Result<(), ()>> {
        None
    }
    fn flush(&mut self) -> Option<Result<(), ()>> {
        None
    }
    fn pos(&mut self) -> Result<u64, ()> {
        self.word_pos().map_err(|_| ())
    }
    fn set_pos(&mut self, p: u64) -> Result<(), ()> {
        self.set_word_pos(p).map_err(|_| ())
    }
    fn len(&self) -> Option<usize> {
        None
    }
}
impl<W: SimWord, B: AsMut<[W]> + AsRef<[W]>> MemDev<W> for MemWordWriterSlice<W, B> {
    fn read(&mut self) -> Option<Result<W, ()>> {
        Some(self.read_word().map_err(|_| ()))
    }
    fn write(&mut self, w: W) -> Option<Result<(), ()>> {
        Some(self.write_word(w).map_err(|_| ()))
    }
    fn flush(&mut self) -> Option<Result<(), ()>> {
        Some(WordWrite::flush(self).map_err(|_| ()))
    }
    fn pos(&mut self) -> Result<u64, ()> {
        self.word_pos().map_err(|_| ())
    }
    fn set_pos(&mut self, p: u64) -> Result<(), ()> {
        self.set_word_pos(p).map_err(|_| ())
    }
    fn len(&self) -> Option<usize> {
        Some(MemWordWriterSlice::len(self))
    }
    fn is_empty(&self) -> Option<bool> {
        Some(MemWordWriterSlice::is_empty(self))
    }
}
impl<W: SimWord, B: AsMut<Vec<W>> + AsRef<Vec<W>>> MemDev<W> for MemWordWriterVec<W, B> {
    fn read(&mut self) -> Option<Result<W, ()>> {
        Some(self.read_word().map_err(|_| ()))
    }
    fn write(&mut self, w: W) -> Option<Result<(), ()>> {
        Some(self.write_word(w).map_err(|_| ()))
    }
    fn flush(&mut self) -> Option<Result<(), ()>> {
        Some(WordWrite::flush(self).map_err(|_| ()))
    }
    fn pos(&mut self) -> Result<u64, ()> {
        self.word_pos().map_err(|_| ())
    }
    fn set_pos(&mut self, p: u64) -> Result<(), ()> {
        self.set_word_pos(p).map_err(|_| ())
    }
    fn len(&self) -> Option<usize> {
        Some(MemWordWriterVec::len(self))
    }
    fn is_empty(&self) -> Option<bool> {
        Some(MemWordWriterVec::is_empty(self))
    }
}

struct Model<W> {
    data: Vec<W>,
    cur: u64,
}

fn opk(op: &Op13) -> u64 {
    match op {
        Op13::Read => 0,
        Op13::Write(_) => 1,
        Op13::Pos => 2,
        Op13::SetPos(_) => 3,
        Op13::Len => 4,
        Op13::Flush => 5,
        Op13::Clone => 6,
    }
}

fn run13<W: SimWord + PartialEq, D: MemDev<W>>(s: &S13, dev: &mut D, m: &mut Model<W>, ctx: &mut Ctx) {
    let kind = s.kind;
    let mut prev = 9u64;
    for (i, op) in s.ops.iter().enumerate() {
        if ctx.failed() {
            return;
        }
        ctx.step(vec![format!("kind={:?}", kind), format!("word={:?}", s.word)]);
        ctx.ops += 1;
        let len = m.data.len() as u64;
        let rel = if m.cur < len {
            0
        } else if m.cur == len {
            1
        } else {
            2
        };
        ctx.sig(&[kind as u64, s.word as u64, s.borrowed as u64, opk(op), rel, prev, (len == 0) as u64]);
        prev = opk(op);
        ctx.tr(|| format!("#{} {:?} (model cursor {}, len {})", i, op, m.cur, len));
        match op {
            Op13::Read => {
                let got = match guard(|| dev.read()) {
                    Ok(g) => g,
                    Err(p) => return ctx.fail("C13.panic", format!("read_word panicked: {}", p)),
                };
                let Some(got) = got else { continue };
                let exp: Result<W, ()> = match kind {
                    MemKind::ReaderInf => {
                        let v = m.data.get(m.cur as usize).copied().unwrap_or(W::from_u128(0));
                        if m.cur >= len {
                            ctx.probe("c13.read_beyond_end_zero");
                        }
                        m.cur += 1;
                        Ok(v)
                    }
                    _ => {
                        if m.cur < len {
                            let v = m.data[m.cur as usize];
                            m.cur += 1;
                            Ok(v)
                        } else {
                            ctx.probe("c13.read_beyond_end_err");
                            Err(())
                        }
                    }
                };
                ctx.ev(match &got {
                    Ok(w) => w.as_u128() as u64 ^ ((w.as_u128() >> 64) as u64),
                    Err(_) => u64::MAX,
                });
                ctx.progressed = true;
                if got != exp {
                    return ctx.fail(
                        "C13.read",
                        format!("op #{} read_word returned {:?}, array+cursor model says {:?}", i, got, exp),
                    );
                }
            }
            Op13::Write(x) => {
                let w = W::from_u128(x.0);
                let got = match guard(|| dev.write(w)) {
                    Ok(g) => g,
                    Err(p) => return ctx.fail("C13.panic", format!("write_word panicked: {}", p)),
                };
                let Some(got) = got else { continue };
                let exp: Result<(), ()> = match kind {
                    MemKind::Vec => {
                        if m.cur >= len {
                            m.data.resize(m.cur as usize + 1, W::from_u128(0));
                            ctx.probe("c13.vec_grow");
                        }
                        m.data[m.cur as usize] = w;
                        m.cur += 1;
                        Ok(())
                    }
                    _ => {
                        if m.cur < len {
                            m.data[m.cur as usize] = w;
                            m.cur += 1;
                            Ok(())
                        } else {
                            ctx.probe("c13.write_beyond_end_err");
                            Err(())
                        }
                    }
                };
                ctx.ev(got.is_ok() as u64);
                ctx.progressed = true;
                if got != exp {
                    return ctx.fail(
                        "C13.write",
                        format!("op #{} write_word returned {:?}, model says {:?}", i, got, exp),
                    );
                }
            }
            Op13::Clone => {
                match guard(|| dev.replace_with_clone()) {
                    Ok(true) => {
                        ctx.probe("c13.continued_on_a_clone");
                        let now = dev.pos();
                        if now != Ok(m.cur) {
                            return ctx.fail(
                                "C13.pos",
                                format!("op #{} the clone of the reader reports position {:?}, the original was at {}", i, now, m.cur),
                            );
                        }
                    }
                    Ok(false) => {}
                    Err(p) => return ctx.fail("C13.panic", format!("clone panicked: {}", p)),
                }
            }
            Op13::Flush => {
                let got = match guard(|| dev.flush()) {
                    Ok(g) => g,
                    Err(p) => return ctx.fail("C13.panic", format!("flush panicked: {}", p)),
                };
                // (flush is exercised but not asserted: the property does not mention it)
                let _ = got;
            }
            Op13::Pos => {
                let got = match guard(|| dev.pos()) {
                    Ok(g) => g,
                    Err(p) => return ctx.fail("C13.panic", format!("word_pos panicked: {}", p)),
                };
                ctx.ev(got.unwrap_or(u64::MAX));
                if got != Ok(m.cur) {
                    return ctx.fail(
                        "C13.pos",
                        format!("op #{} word_pos returned {:?}, model cursor is {}", i, got, m.cur),
                    );
                }
            }
            Op13::SetPos(p) => {
                let got = match guard(|| dev.set_pos(*p)) {
                    Ok(g) => g,
                    Err(pm) => return ctx.fail("C13.panic", format!("set_word_pos panicked: {}", pm)),
                };
                let exp = match kind {
                    MemKind::ReaderInf => {
                        m.cur = *p;
                        Ok(())
                    }
                    _ => {
                        if *p <= len {
                            m.cur = *p;
                            Ok(())
                        } else {
                            ctx.probe("c13.setpos_rejected");
                            ctx.probe_if(*p >= 1u64 << 32, "c13.setpos_huge_rejected");
                            Err(())
                        }
                    }
                };
                ctx.ev(got.is_ok() as u64);
                ctx.progressed = true;
                if got != exp {
                    return ctx.fail(
                        "C13.set_pos",
                        format!("op #{} set_word_pos({}) returned {:?}, model says {:?} (len {})", i, p, got, exp, len),
                    );
                }
                // a rejected set-position must leave the position unchanged: checked
                // through the next Pos / Read and explicitly here
                let now = dev.pos();
                if now != Ok(m.cur) {
                    return ctx.fail(
                        "C13.set_pos",
                        format!(
                            "op #{} after set_word_pos({}) -> {:?} the position is {:?}, model cursor {}",
                            i, p, got, now, m.cur
                        ),
                    );
                }
            }
            Op13::Len => {
                if let Some(l) = dev.len() {
                    ctx.ev(l as u64);
                    if l as u64 != m.data.len() as u64 {
                        return ctx.fail(
                            "C13.len",
                            format!("op #{} len() = {}, model array has {} words", i, l, m.data.len()),
                        );
                    }
                    if let Some(e) = dev.is_empty() {
                        if e != m.data.is_empty() {
                            return ctx.fail(
                                "C13.len",
                                format!("op #{} is_empty() = {}, model array has {} words", i, e, m.data.len()),
                            );
                        }
                    }
                }
            }
        }
    }
}

fn exec_w<W: SimWord + PartialEq>(s: &S13, ctx: &mut Ctx) {
    let init: Vec<W> = s.init.iter().map(|x| W::from_u128(x.0)).collect();
    let mut m = Model {
        data: init.clone(),
        cur: 0,
    };
    let fin: Vec<W>;
    match (s.kind, s.borrowed) {
        (MemKind::ReaderInf, false) => {
            let mut d = MemWordReader::new(init.clone());
            run13(s, &mut d, &mut m, ctx);
            fin = d.into_inner();
        }
        (MemKind::ReaderInf, true) => {
            let mut d = MemWordReader::new(&init[..]);
            run13(s, &mut d, &mut m, ctx);
            fin = d.into_inner().to_vec();
        }
        (MemKind::ReaderStrict, false) => {
            let mut d = MemWordReader::new_strict(init.clone());
            run13(s, &mut d, &mut m, ctx);
            fin = init.clone();
        }
        (MemKind::ReaderStrict, true) => {
            let mut d = MemWordReader::new_strict(&init[..]);
            run13(s, &mut d, &mut m, ctx);
            fin = init.clone();
        }
        (MemKind::Slice, false) => {
            let mut d = MemWordWriterSlice::new(init.clone());
            run13(s, &mut d, &mut m, ctx);
            fin = d.into_inner();
        }
        (MemKind::Slice, true) => {
            let mut st = init.clone();
            {
                let mut d = MemWordWriterSlice::new(&mut st[..]);
                run13(s, &mut d, &mut m, ctx);
            }
            fin = st;
        }
        (MemKind::Vec, false) => {
            let mut d = MemWordWriterVec::new(init.clone());
            run13(s, &mut d, &mut m, ctx);
            fin = d.into_inner();
        }
        (MemKind::Vec, true) => {
            let mut st = init.clone();
            {
                let mut d = MemWordWriterVec::new(&mut st);
                run13(s, &mut d, &mut m, ctx);
            }
            fin = st;
        }
    }
    if ctx.failed() {
        return;
    }
    ctx.set_tags(vec![format!("kind={:?}", s.kind), format!("word={:?}", s.word)]);
    if fin != m.data {
        ctx.fail(
            "C13.final_contents",
            format!("final storage {:?} differs from model {:?}", fin, m.data),
        );
    }
}

pub struct C13;

impl Family for C13 {
    type Scn = S13;
    const ID: &'static str = "C13";

    fn gen(rng: &mut Rng, _tier: Tier, index: u64) -> S13 {
        let word = Wd::ALL[(index % 5) as usize];
        let kind = [MemKind::ReaderInf, MemKind::ReaderStrict, MemKind::Slice, MemKind::Vec][((index / 5) % 4) as usize];
        let borrowed = (index / 20) % 2 == 1;
        let n = match rng.below(4) {
            0 => 0,
            1 => rng.range(1, 3),
            _ => rng.range(1, 12),
        } as usize;
        let init: Vec<X128> = (0..n)
            .map(|_| X128(((rng.next() as u128) << 64 | rng.next() as u128) | 1))
            .collect();
        let nops = rng.range(1, 40) as usize;
        let mut len_est = n as u64;
        let mut ops = Vec::with_capacity(nops);
        for _ in 0..nops {
            let op = match rng.below(10) {
                0..=2 => Op13::Read,
                3..=5 => Op13::Write(X128((rng.next() as u128) << 64 | rng.next() as u128 | 1)),
                6 => Op13::Pos,
                7 | 8 => {
                    let p = match rng.below(10) {
                        0 => 0,
                        1 => len_est,
                        2 => len_est + 1,
                        3 => len_est + rng.range(1, 3),
                        4 => rng.range(1 << 20, (1u64 << 32) - 1),
                        // far out of range: 2^k + small (a position whose high bits must not be
                        // lost in any internal byte-offset arithmetic), 2^63-1, 2^64-1. The
                        // zero-extended reader accepts any position: 2^k + small, around 2^63 and
                        // up to 2^64 - 1200, so that the at most 40 reads that may follow cannot
                        // overflow the cursor (of the reader under test or of the model).
                        5 | 6 => {
                            if kind == MemKind::ReaderInf {
                                match rng.below(4) {
                                    0 => (1u64 << 63) - rng.below(3),
                                    1 => (1u64 << 63) + rng.range(0, 1000),
                                    2 => u64::MAX - 200 - rng.below(1000),
                                    _ => (1u64 << rng.range(32, 62)) + rng.range(0, len_est + 1),
                                }
                            } else {
                                match rng.below(4) {
                                    0 => u64::MAX - rng.below(2),
                                    1 => i64::MAX as u64,
                                    _ => (1u64 << rng.range(32, 63)).wrapping_mul(rng.range(1, 3)).wrapping_add(rng.range(0, len_est + 1)),
                                }
                            }
                        }
                        _ => rng.range(0, len_est + 1),
                    };
                    Op13::SetPos(p)
                }
                _ => match rng.below(3) {
                    0 => Op13::Len,
                    1 => Op13::Flush,
                    _ => {
                        if matches!(kind, MemKind::ReaderInf | MemKind::ReaderStrict) {
                            Op13::Clone
                        } else {
                            Op13::Flush
                        }
                    }
                },
            };
            if let (Op13::Write(_), MemKind::Vec) = (&op, kind) {
                len_est += 1;
            }
            ops.push(op);
        }
        S13 {
            word,
            kind,
            borrowed,
            init,
            ops,
        }
    }

    fn exec(s: &S13, ctx: &mut Ctx) {
        match s.word {
            Wd::U8 => exec_w::<u8>(s, ctx),
            Wd::U16 => exec_w::<u16>(s, ctx),
            Wd::U32 => exec_w::<u32>(s, ctx),
            Wd::U64 => exec_w::<u64>(s, ctx),
            Wd::U128 => exec_w::<u128>(s, ctx),
        }
    }

    fn shrink(s: &S13) -> Vec<S13> {
        let mut out = Vec::new();
        for ops in shrink_list(&s.ops) {
            out.push(S13 { ops, ..s.clone() });
        }
        for init in shrink_list(&s.init) {
            out.push(S13 { init, ..s.clone() });
        }
        for (i, op) in s.ops.iter().enumerate() {
            match op {
                Op13::SetPos(p) => {
                    for q in shrink_u64(*p) {
                        let mut t = s.clone();
                        t.ops[i] = Op13::SetPos(q);
                        out.push(t);
                    }
                }
                Op13::Write(x) if x.0 > 1 => {
                    let mut t = s.clone();
                    t.ops[i] = Op13::Write(X128(1));
                    out.push(t);
                }
                _ => {}
            }
        }
        if s.borrowed {
            out.push(S13 {
                borrowed: false,
                ..s.clone()
            });
        }
        out
    }

    fn rule() -> &'static str {
        "one case = (word type, device kind, owned/borrowed storage, initial array, history of <=40 read/write/pos/set_pos/len/flush calls), generated from the run seed; every call is compared with an array+cursor model. distinct_nontrivial counts distinct (device kind, word, storage, op kind, cursor position relative to end {inside, at end, beyond}, previous op kind, empty array?) signatures exercised by runs that executed at least one checked read/write/seek"
    }

    fn components() -> (Vec<&'static str>, Vec<&'static str>) {
        (
            vec!["MemWordReader<INF=true>", "MemWordReader<INF=false>", "MemWordWriterSlice", "MemWordWriterVec"],
            vec![],
        )
    }

    fn required_probes(_t: Tier) -> Vec<&'static str> {
        vec![
            "c13.continued_on_a_clone",
            "c13.read_beyond_end_zero",
            "c13.read_beyond_end_err",
            "c13.write_beyond_end_err",
            "c13.setpos_rejected",
            "c13.setpos_huge_rejected",
            "c13.vec_grow",
        ]
    }

    fn runs(t: Tier) -> u64 {
        match t {
            Tier::Quick => 4_000_000,
            Tier::Thorough => 400_000_000,
        }
    }
}
