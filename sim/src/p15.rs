//! C15 — code statistics are exact, mergeable and thread-safe.
//!
//! Built only with `--cfg dsi_bitstream_verif_shuttle` (the Mutex inside
//! CodesStatsWrapper is then shuttle's, so lock acquisition is a scheduling
//! point the simulator owns). 2-4 simulated threads share one
//! CodesStatsWrapper<Codes> and perform reads or writes through it on private
//! streams; an observer thread takes snapshots through stats(); each thread also
//! feeds a private CodesStats that is merged at the end with a seed-chosen mix of
//! add / += / + / sum. Values are 2^i-1 with i even, each used at most three times
//! (also by different threads), so the `unary` total of a snapshot is a base-4
//! number whose digits say how many updates of each value it contains.
//!
//! Oracle: every snapshot is the exact sum over the subset named by its bitmask
//! (no torn update), contains every update completed before it and none not yet
//! invoked; after join all totals equal the REAL encoded size of the multiset
//! (values actually written with that code and parameter, bits measured from the
//! writer's output); merged partials = union; best_code has the minimum total.

use crate::fw::*;
use crate::model::{BitModel, En};
use crate::rng::Rng;
use dsi_bitstream::prelude::*;
use serde::{Deserialize, Serialize};
use std::collections::HashMap;
use std::sync::atomic::{AtomicU64, Ordering};
use std::sync::{Arc, Mutex as StdMutex, OnceLock};

#[derive(Clone, Debug, Serialize, Deserialize, PartialEq, Eq)]
pub struct Upd {
    /// value = 2^i - 1
    pub i: u32,
    pub write: bool,
    /// go through the StaticCodeRead/StaticCodeWrite impls of the wrapper instead
    /// of the DynamicCodeRead/DynamicCodeWrite ones
    #[serde(default)]
    pub stat: bool,
}

#[derive(Clone, Copy, Debug, Serialize, Deserialize, PartialEq, Eq)]
pub enum Sched15 {
    Random,
    Pct(usize),
}

#[derive(Clone, Debug, Serialize, Deserialize)]
pub struct S15 {
    pub e: En,
    /// code of the wrapped dispatcher (index into WRAPPED)
    pub wrapped: usize,
    pub threads: Vec<Vec<Upd>>,
    pub snapshots: usize,
    /// private partial statistics: per partial a list of (value, multiplicity)
    pub partials: Vec<Vec<(u64, u64)>>,
    /// how partial k is merged into the accumulator: 0 add, 1 +=, 2 +, 3 sum (with the following ones)
    pub merge_how: Vec<u8>,
    pub sched: Sched15,
    pub sched_seed: u64,
    pub iters: usize,
    /// exact schedule to replay (set by the minimiser)
    pub schedule: Option<String>,
}

pub struct C15;

const NFIELDS: usize = 5 + 10 + 20 + 10 + 10 + 10;

fn field_code(k: usize) -> Codes {
    match k {
        0 => Codes::Unary,
        1 => Codes::Gamma,
        2 => Codes::Delta,
        3 => Codes::Omega,
        4 => Codes::VByteBe,
        5..=14 => Codes::Zeta { k: k - 5 + 1 },
        15..=34 => Codes::Golomb { b: k - 15 + 1 },
        35..=44 => Codes::ExpGolomb { k: k - 35 },
        45..=54 => Codes::Rice { log2_b: k - 45 },
        _ => Codes::Pi { k: k - 55 + 2 },
    }
}

fn fields(s: &CodesStats) -> Vec<u64> {
    let mut v = vec![s.unary, s.gamma, s.delta, s.omega, s.vbyte];
    v.extend_from_slice(&s.zeta);
    v.extend_from_slice(&s.golomb);
    v.extend_from_slice(&s.exp_golomb);
    v.extend_from_slice(&s.rice);
    v.extend_from_slice(&s.pi);
    v
}

fn wrapped_code(i: usize) -> Codes {
    [Codes::Gamma, Codes::Delta, Codes::Zeta { k: 3 }, Codes::Omega, Codes::VByteLe, Codes::Pi { k: 2 }, Codes::Rice { log2_b: 5 }][i % 7]
}

/// REAL encoded size in bits of `v` with `code`: written with the real writer
/// followed by a marker bit; None when the codeword would be too long to write.
fn real_size(code: Codes, v: u64) -> Option<u64> {
    // feasibility: unary-like parts must stay writable
    let q = match code {
        Codes::Unary => v,
        Codes::Golomb { b } => v / b as u64,
        Codes::Rice { log2_b } => v >> log2_b,
        _ => 0,
    };
    if q > 20_000 {
        return None;
    }
    let mut w = BufBitWriter::<BE, _>::new(MemWordWriterVec::new(Vec::<u64>::new()));
    code.write(&mut w, v).ok()?;
    w.write_bits(1, 1).ok()?;
    let words = w.into_inner().ok()?.into_inner();
    let mut bytes = Vec::new();
    for x in words {
        bytes.extend_from_slice(&x.to_ne_bytes());
    }
    let m = BitModel::from_bytes(En::BE, &bytes);
    m.bits.iter().rposition(|b| *b != 0).map(|i| i as u64)
}

fn sizes_of(v: u64) -> Arc<Vec<Option<u64>>> {
    static CACHE: OnceLock<StdMutex<HashMap<u64, Arc<Vec<Option<u64>>>>>> = OnceLock::new();
    let c = CACHE.get_or_init(|| StdMutex::new(HashMap::new()));
    if let Some(x) = c.lock().unwrap().get(&v) {
        return x.clone();
    }
    let t: Vec<Option<u64>> = (0..NFIELDS).map(|k| real_size(field_code(k), v)).collect();
    let a = Arc::new(t);
    c.lock().unwrap().insert(v, a.clone());
    a
}

/// The concurrent scenario, executed under a shuttle scheduler.
///
/// Values are 2^i - 1 with i even and each value used at most three times in a
/// scenario, so that the `unary` total (sum of 2^i = 4^(i/2)) is a base-4 number
/// whose digits say how many updates of each value a snapshot contains.
fn scenario(s: Arc<S15>, table: Arc<HashMap<u32, Arc<Vec<Option<u64>>>>>, obs: Arc<StdMutex<Vec<u64>>>) {
    use shuttle::thread;
    let code = wrapped_code(s.wrapped);
    let wrapper = Arc::new(CodesStatsWrapper::<Codes>::new(code));
    let seq = Arc::new(AtomicU64::new(1));
    let all: Vec<u32> = s.threads.iter().flatten().map(|u| u.i).collect();
    let nupd = all.len();
    let mut values: Vec<u32> = all.clone();
    values.sort();
    values.dedup();
    // invocation / completion sequence numbers per (value, occurrence)
    let inv: Arc<StdMutex<Vec<(u32, u64)>>> = Arc::new(StdMutex::new(Vec::new()));
    let done: Arc<StdMutex<Vec<(u32, u64)>>> = Arc::new(StdMutex::new(Vec::new()));
    let order: Arc<StdMutex<Vec<u64>>> = Arc::new(StdMutex::new(Vec::new()));
    let mut handles = Vec::new();
    for (t, upds) in s.threads.iter().enumerate() {
        let upds = upds.clone();
        let wrapper = wrapper.clone();
        let seq = seq.clone();
        let inv = inv.clone();
        let done = done.clone();
        let order = order.clone();
        let e = s.e;
        handles.push(thread::spawn(move || {
            // private streams of this thread
            let reads: Vec<u64> = upds.iter().filter(|u| !u.write).map(|u| (1u64 << u.i) - 1).collect();
            macro_rules! body {
                ($E:ty) => {{
                    let mut pre = BufBitWriter::<$E, _>::new(MemWordWriterVec::new(Vec::<u64>::new()));
                    for v in &reads {
                        code.write(&mut pre, *v).unwrap();
                    }
                    let mut words = pre.into_inner().unwrap().into_inner();
                    words.push(0);
                    let mut reader = BufBitReader::<$E, _>::new(MemWordReader::new(words));
                    let mut writer = BufBitWriter::<$E, _>::new(MemWordWriterVec::new(Vec::<u64>::new()));
                    for u in &upds {
                        let v = (1u64 << u.i) - 1;
                        inv.lock().unwrap().push((u.i, seq.fetch_add(1, Ordering::SeqCst)));
                        if u.write {
                            let n = if u.stat {
                                StaticCodeWrite::<$E, _>::write(&*wrapper, &mut writer, v).unwrap()
                            } else {
                                DynamicCodeWrite::write(&*wrapper, &mut writer, v).unwrap()
                            };
                            assert!(n > 0, "C15.wrapper_write: wrote 0 bits");
                        } else {
                            let r = if u.stat {
                                StaticCodeRead::<$E, _>::read(&*wrapper, &mut reader).unwrap()
                            } else {
                                DynamicCodeRead::read(&*wrapper, &mut reader).unwrap()
                            };
                            assert!(r == v, "C15.wrapper_read: wrapper read {} instead of {}", r, v);
                        }
                        done.lock().unwrap().push((u.i, seq.fetch_add(1, Ordering::SeqCst)));
                        order.lock().unwrap().push(t as u64 * 16 + u.i as u64);
                        thread::sleep(std::time::Duration::from_millis(0));
                    }
                }};
            }
            match e {
                En::BE => body!(BE),
                En::LE => body!(LE),
            }
        }));
    }
    // observer
    {
        let wrapper = wrapper.clone();
        let seq = seq.clone();
        let inv = inv.clone();
        let done = done.clone();
        let order = order.clone();
        let table = table.clone();
        let values = values.clone();
        let snaps = s.snapshots;
        handles.push(thread::spawn(move || {
            for _ in 0..snaps {
                let s_inv = seq.fetch_add(1, Ordering::SeqCst);
                let snap: CodesStats = *wrapper.stats().lock().unwrap();
                let s_done = seq.fetch_add(1, Ordering::SeqCst);
                order.lock().unwrap().push(1000);
                let mask = snap.unary;
                // decode the base-4 digits: how many updates of each value are in the snapshot
                let mut counts: Vec<(u32, u64)> = Vec::new();
                let mut rest = mask;
                for v in &values {
                    let c = (mask >> v) & 3;
                    counts.push((*v, c));
                    rest &= !(3u64 << v);
                }
                assert!(rest == 0, "C15.snapshot_torn: snapshot unary total {:#x} is not a sum of whole updates of this scenario", mask);
                let n_in: u64 = counts.iter().map(|c| c.1).sum();
                assert!(
                    snap.total == n_in,
                    "C15.snapshot_torn: snapshot holds the unary contribution of {} updates but total = {}",
                    n_in,
                    snap.total
                );
                let f = fields(&snap);
                for k in 0..NFIELDS {
                    let mut exp = 0u64;
                    for (v, c) in &counts {
                        exp += table[v][k].unwrap() * c;
                    }
                    assert!(
                        f[k] == exp,
                        "C15.snapshot_torn: snapshot containing (exponent, count) {:?}: total for {:?} is {} but those values need {} bits",
                        counts,
                        field_code(k),
                        f[k],
                        exp
                    );
                }
                // real-time order: completed-before => included; not yet invoked => excluded
                let dn = done.lock().unwrap();
                let iv = inv.lock().unwrap();
                for (v, c) in &counts {
                    let completed_before = dn.iter().filter(|(x, q)| x == v && *q < s_inv).count() as u64;
                    let invoked_before = iv.iter().filter(|(x, q)| x == v && *q < s_done).count() as u64;
                    assert!(
                        *c >= completed_before,
                        "C15.snapshot_misses_completed_update: {} updates of 2^{}-1 completed before the snapshot was requested but it holds {}",
                        completed_before,
                        v,
                        c
                    );
                    assert!(
                        *c <= invoked_before,
                        "C15.snapshot_contains_future_update: the snapshot holds {} updates of 2^{}-1 but only {} had been invoked when it returned",
                        c,
                        v,
                        invoked_before
                    );
                }
                drop(dn);
                drop(iv);
                thread::sleep(std::time::Duration::from_millis(0));
            }
        }));
    }
    for h in handles {
        h.join().unwrap();
    }
    // after join: exact totals
    let fin: CodesStats = *wrapper.stats().lock().unwrap();
    assert!(fin.total == nupd as u64, "C15.final_total: {} updates but total = {}", nupd, fin.total);
    let f = fields(&fin);
    for k in 0..NFIELDS {
        let mut exp = 0u64;
        for id in &all {
            exp += table[id][k].unwrap();
        }
        assert!(
            f[k] == exp,
            "C15.final_totals: after all threads joined the total for {:?} is {} but writing the {} values with that code takes {} bits",
            field_code(k),
            f[k],
            nupd,
            exp
        );
    }
    // failed operations observe nothing: a write refused by a full fixed slice and a read
    // that hits the end of a strict stream leave count and totals exactly where they were
    // (a retry after making room must not count the value twice)
    {
        let v0 = (1u64 << all.first().copied().unwrap_or(2)) - 1;
        macro_rules! failing {
            ($E:ty) => {{
                // (never dropped: the drop-time flush of a writer over a full slice panics)
                let mut writer = std::mem::ManuallyDrop::new(BufBitWriter::<$E, _>::new(MemWordWriterSlice::new(vec![0u64; 1])));
                let mut ok = 0u64;
                for _ in 0..200u64 {
                    let before: CodesStats = *wrapper.stats().lock().unwrap();
                    // (no flush: the write itself fails when the bit buffer spills into the full slice)
                    // both dispatch paths of the wrapper, in turn
                    let r = if before.total % 2 == 0 {
                        DynamicCodeWrite::write(&*wrapper, &mut *writer, v0)
                    } else {
                        StaticCodeWrite::<$E, _>::write(&*wrapper, &mut *writer, v0)
                    };
                    let after: CodesStats = *wrapper.stats().lock().unwrap();
                    match r {
                        Ok(_) => ok += 1,
                        Err(_) => {
                            assert!(
                                after.total == before.total,
                                "C15.failed_write_counted: a write of {} through the wrapper failed (fixed slice full) but the element count went from {} to {}",
                                v0,
                                before.total,
                                after.total
                            );
                            break;
                        }
                    }
                }
                let _ = ok;
                let mut reader = BufBitReader::<$E, _>::new(MemWordReader::new_strict(vec![u64::MAX; 1]));
                for _ in 0..200u64 {
                    let before: CodesStats = *wrapper.stats().lock().unwrap();
                    let r = if before.total % 2 == 0 {
                        DynamicCodeRead::read(&*wrapper, &mut reader)
                    } else {
                        StaticCodeRead::<$E, _>::read(&*wrapper, &mut reader)
                    };
                    let after: CodesStats = *wrapper.stats().lock().unwrap();
                    if r.is_err() {
                        assert!(
                            after.total == before.total,
                            "C15.failed_read_counted: a read through the wrapper failed (end of a strict stream) but the element count went from {} to {}",
                            before.total,
                            after.total
                        );
                        break;
                    }
                }
            }};
        }
        match s.e {
            En::BE => failing!(BE),
            En::LE => failing!(LE),
        }
    }
    // record the interleaving (for the distinct-interleavings measure)
    let o = order.lock().unwrap();
    let mut h: u64 = 0xcbf2_9ce4_8422_2325;
    for x in o.iter() {
        h ^= *x;
        h = h.wrapping_mul(0x0000_0100_0000_01b3);
    }
    obs.lock().unwrap().push(h);
}

fn code_key(c: Codes) -> u32 {
    match c {
        Codes::Unary => 0,
        Codes::Gamma => 1,
        Codes::Delta => 2,
        Codes::Omega => 3,
        Codes::VByteBe => 4,
        Codes::VByteLe => 5,
        Codes::Zeta { k } => 100 + k as u32,
        Codes::Golomb { b } => 1000 + b as u32,
        Codes::ExpGolomb { k } => 200 + k as u32,
        Codes::Rice { log2_b } => 300 + log2_b as u32,
        Codes::Pi { k } => 400 + k as u32,
        _ => 999_999,
    }
}

fn real_size_cached(code: Codes, v: u64) -> Option<u64> {
    static CACHE: OnceLock<StdMutex<HashMap<(u32, u64), Option<u64>>>> = OnceLock::new();
    let c = CACHE.get_or_init(|| StdMutex::new(HashMap::new()));
    let key = (code_key(code), v);
    if let Some(x) = c.lock().unwrap().get(&key) {
        return *x;
    }
    let r = real_size(code, v);
    let mut g = c.lock().unwrap();
    if g.len() < 2_000_000 {
        g.insert(key, r);
    }
    r
}

/// Fields of a CodesStats with arbitrary family sizes, with the code each one stands for
/// (documented mapping: zeta k=i+1, golomb b=i+1, exp-golomb k=i, rice log2_b=i, pi k=i+2).
fn fields_g<const Z: usize, const G: usize, const EG: usize, const R: usize, const P: usize>(
    s: &CodesStats<Z, G, EG, R, P>,
) -> Vec<(Codes, u64)> {
    let mut v = vec![
        (Codes::Unary, s.unary),
        (Codes::Gamma, s.gamma),
        (Codes::Delta, s.delta),
        (Codes::Omega, s.omega),
        (Codes::VByteBe, s.vbyte),
    ];
    for (i, x) in s.zeta.iter().enumerate() {
        v.push((Codes::Zeta { k: i + 1 }, *x));
    }
    for (i, x) in s.golomb.iter().enumerate() {
        v.push((Codes::Golomb { b: i + 1 }, *x));
    }
    for (i, x) in s.exp_golomb.iter().enumerate() {
        v.push((Codes::ExpGolomb { k: i }, *x));
    }
    for (i, x) in s.rice.iter().enumerate() {
        v.push((Codes::Rice { log2_b: i }, *x));
    }
    for (i, x) in s.pi.iter().enumerate() {
        v.push((Codes::Pi { k: i + 2 }, *x));
    }
    v
}

/// Sequential part: partial statistics and merging, best_code — for one choice of
/// the family sizes (const parameters of CodesStats).
fn merge_part_g<const Z: usize, const G: usize, const EG: usize, const R: usize, const P: usize>(s: &S15, ctx: &mut Ctx, label: &str) {
    ctx.set_tags(vec!["op=merge".into(), format!("sizes={}", label)]);
    let mut parts: Vec<CodesStats<Z, G, EG, R, P>> = Vec::new();
    let proto = fields_g(&CodesStats::<Z, G, EG, R, P>::default());
    let nf = proto.len();
    let mut exp = vec![Some(0u64); nf];
    let mut exp_total = 0u64;
    for p in &s.partials {
        let mut st = CodesStats::<Z, G, EG, R, P>::default();
        for (v, c) in p {
            ctx.ops += 1;
            if *c == 1 {
                let r = st.update(*v);
                if r != *v {
                    return ctx.fail("C15.update_return", format!("update({}) returned {}", v, r));
                }
            } else {
                st.update_many(*v, *c);
            }
            for k in 0..nf {
                exp[k] = match (exp[k], real_size_cached(proto[k].0, *v)) {
                    (Some(a), Some(b)) => Some(a + b * c),
                    _ => None,
                };
            }
            exp_total += c;
        }
        parts.push(st);
    }
    // merge with the chosen mix
    let mut acc = CodesStats::<Z, G, EG, R, P>::default();
    let mut k = 0;
    while k < parts.len() {
        match s.merge_how.get(k).copied().unwrap_or(0) % 4 {
            0 => {
                acc.add(&parts[k]);
                k += 1;
            }
            1 => {
                acc += parts[k];
                k += 1;
            }
            2 => {
                acc = acc + parts[k];
                k += 1;
            }
            _ => {
                let rest: CodesStats<Z, G, EG, R, P> = parts[k..].iter().copied().sum();
                acc += rest;
                k = parts.len();
                ctx.probe("c15.merged_with_sum");
            }
        }
    }
    ctx.ev(acc.total);
    if acc.total != exp_total {
        return ctx.fail("C15.merge_total", format!("merged element count {} != {}", acc.total, exp_total));
    }
    let f = fields_g(&acc);
    for k in 0..nf {
        ctx.ev(f[k].1);
        if let Some(e) = exp[k] {
            if f[k].1 != e {
                return ctx.fail(
                    "C15.merge_totals",
                    format!(
                        "merged partial statistics (family sizes {}): total for {:?} is {} but writing the union of the observed values with that code takes {} bits",
                        label, f[k].0, f[k].1, e
                    ),
                );
            }
        }
    }
    ctx.progressed = true;
    if exp_total > 0 {
        let (bc, cost) = acc.best_code();
        let min = f.iter().map(|x| x.1).min().unwrap();
        ctx.ev(cost);
        if cost != min {
            return ctx.fail(
                "C15.best_code",
                format!("best_code (family sizes {}) reports cost {} but the minimum tracked total is {}", label, cost, min),
            );
        }
        // the reported code must be the one whose real encoded size is that cost
        let mut real = Some(0u64);
        for p in &s.partials {
            for (v, c) in p {
                real = match (real, real_size_cached(bc, *v)) {
                    (Some(a), Some(b)) => Some(a + b * c),
                    _ => None,
                };
            }
        }
        if let Some(r) = real {
            if r != cost {
                return ctx.fail(
                    "C15.best_code",
                    format!("best_code reports {:?} with cost {} but writing the values with {:?} takes {} bits", bc, cost, bc, r),
                );
            }
            ctx.probe("c15.best_code_checked_against_real_size");
        }
    }
}

fn merge_part(s: &S15, ctx: &mut Ctx) {
    // default family sizes and a second instantiation with pairwise different sizes
    merge_part_g::<10, 20, 10, 10, 10>(s, ctx, "default");
    if !ctx.failed() {
        merge_part_g::<3, 5, 2, 6, 4>(s, ctx, "3,5,2,6,4");
    }
}

fn sched_dir() -> std::path::PathBuf {
    let d = std::env::temp_dir().join(format!("dsisim-c15-{}", std::process::id()));
    let _ = std::fs::create_dir_all(&d);
    d
}

fn newest_schedule(dir: &std::path::Path) -> Option<String> {
    let mut best: Option<(std::time::SystemTime, std::path::PathBuf)> = None;
    for e in std::fs::read_dir(dir).ok()? {
        let e = e.ok()?;
        let m = e.metadata().ok()?.modified().ok()?;
        if best.as_ref().map(|b| m >= b.0).unwrap_or(true) {
            best = Some((m, e.path()));
        }
    }
    let (_, p) = best?;
    let s = std::fs::read_to_string(&p).ok();
    let _ = std::fs::remove_file(&p);
    s
}

/// Run the concurrent part; returns Err((panic message, failing schedule)).
fn run_concurrent(s: &S15, ctx: &mut Ctx) -> Result<(), (String, Option<String>)> {
    let mut table: HashMap<u32, Arc<Vec<Option<u64>>>> = HashMap::new();
    for t in &s.threads {
        for u in t {
            table.insert(u.i, sizes_of((1u64 << u.i) - 1));
        }
    }
    let table = Arc::new(table);
    let obs: Arc<StdMutex<Vec<u64>>> = Arc::new(StdMutex::new(Vec::new()));
    let sa = Arc::new(s.clone());
    let dir = sched_dir();
    let mut cfg = shuttle::Config::new();
    cfg.failure_persistence = shuttle::FailurePersistence::File(Some(dir.clone()));
    cfg.stack_size = 0x40000;
    let (sa2, t2, o2) = (sa.clone(), table.clone(), obs.clone());
    let f = move || scenario(sa2.clone(), t2.clone(), o2.clone());
    let res = std::panic::catch_unwind(std::panic::AssertUnwindSafe(|| match (&s.schedule, s.sched) {
        (Some(enc), _) => {
            let sch = shuttle::scheduler::ReplayScheduler::new_from_encoded(enc);
            shuttle::Runner::new(sch, cfg).run(f);
        }
        (None, Sched15::Random) => {
            let sch = shuttle::scheduler::RandomScheduler::new_from_seed(s.sched_seed, s.iters);
            shuttle::Runner::new(sch, cfg).run(f);
        }
        (None, Sched15::Pct(d)) => {
            let sch = shuttle::scheduler::PctScheduler::new_from_seed(s.sched_seed, d, s.iters);
            shuttle::Runner::new(sch, cfg).run(f);
        }
    }));
    let o = obs.lock().unwrap();
    ctx.ops += o.len() as u64 * (s.threads.iter().map(|t| t.len()).sum::<usize>() + s.snapshots) as u64;
    for h in o.iter() {
        ctx.sig(&[15, *h]);
        ctx.ev(*h);
    }
    ctx.steps += o.len() as u64;
    *ctx.probes.entry("c15.schedules_executed").or_insert(0) += o.len() as u64;
    let out = match res {
        Ok(()) => Ok(()),
        Err(_) => Err((last_panic(), newest_schedule(&dir))),
    };
    // scratch directory of this process (only ever holds the schedule file of a failure, read above)
    let _ = std::fs::remove_dir(&dir);
    out
}

fn oracle_of(msg: &str) -> (String, String) {
    if let Some(p) = msg.find("C15.") {
        let rest = &msg[p..];
        let id: String = rest.chars().take_while(|c| c.is_alphanumeric() || *c == '.' || *c == '_').collect();
        (id.trim_end_matches('.').to_string(), rest.to_string())
    } else {
        ("C15.panic".to_string(), msg.to_string())
    }
}

impl Family for C15 {
    type Scn = S15;
    const ID: &'static str = "C15";

    fn gen(rng: &mut Rng, tier: Tier, index: u64) -> S15 {
        let e = if index % 2 == 0 { En::BE } else { En::LE };
        let nthreads = rng.usize_range(2, 4);
        // values 2^i - 1 with i even in 0..=12; a pool with every value three times, so that
        // repeated values (also across threads) are common; values stay <= 4095 so that even
        // the unary code is writable and real sizes can be measured
        let mut pool: Vec<u32> = Vec::new();
        let distinct = rng.usize_range(1, 7);
        let mut evens: Vec<u32> = (0..7).map(|k| 2 * k).collect();
        for i in (1..evens.len()).rev() {
            let j = rng.below(i as u64 + 1) as usize;
            evens.swap(i, j);
        }
        for v in evens.iter().take(distinct) {
            for _ in 0..3 {
                pool.push(*v);
            }
        }
        for i in (1..pool.len()).rev() {
            let j = rng.below(i as u64 + 1) as usize;
            pool.swap(i, j);
        }
        let mut threads = Vec::new();
        for _ in 0..nthreads {
            let k = rng.usize_range(1, 3);
            let mut t = Vec::new();
            for _ in 0..k {
                if let Some(i) = pool.pop() {
                    t.push(Upd { i, write: rng.chance(1, 2), stat: rng.chance(1, 2) });
                }
            }
            if !t.is_empty() {
                threads.push(t);
            }
        }
        let np = rng.usize_range(1, 4);
        let partials = (0..np)
            .map(|_| {
                (0..rng.usize_range(0, 5))
                    .map(|_| {
                        let v = match rng.below(6) {
                            0 => rng.below(10),
                            1 => rng.below(5000),
                            2 => (1u64 << rng.below(40)).wrapping_sub(1) + rng.below(3),
                            3 => rng.interesting((1u64 << 50) - 1),
                            _ => rng.below(300),
                        };
                        let c = match rng.below(4) {
                            0 => 1,
                            1 => rng.range(2, 10),
                            2 => 0,
                            _ => rng.range(1, 1000),
                        };
                        // occasionally a very large value with a small multiplicity (totals
                        // must still fit in 64 bits: the unary total is (v+1)*count)
                        if rng.chance(1, 12) {
                            (rng.interesting((1u64 << 61) - 1), rng.range(0, 2))
                        } else {
                            (v, c)
                        }
                    })
                    .collect()
            })
            .collect();
        S15 {
            e,
            wrapped: rng.below(7) as usize,
            threads,
            snapshots: rng.usize_range(1, 3),
            partials,
            merge_how: (0..np).map(|_| rng.below(4) as u8).collect(),
            sched: if index % 3 == 2 { Sched15::Pct(rng.usize_range(1, 4)) } else { Sched15::Random },
            sched_seed: rng.next(),
            iters: if tier == Tier::Quick { 20 } else { 60 },
            schedule: None,
        }
    }

    fn exec(s: &S15, ctx: &mut Ctx) {
        ctx.step(vec![format!("e={:?}", s.e), "op=concurrent_updates".into()]);
        match run_concurrent(s, ctx) {
            Ok(()) => {
                ctx.progressed = true;
            }
            Err((msg, sched)) => {
                if is_harness_panic(&msg) && !msg.contains("C15.") {
                    return ctx.fail("HARNESS.panic", msg);
                }
                let (oracle, detail) = oracle_of(&msg);
                let detail = match sched {
                    Some(sc) => format!("{} [failing schedule: {}]", detail, sc.trim()),
                    None => detail,
                };
                return ctx.fail(&oracle, detail);
            }
        }
        merge_part(s, ctx);
    }

    fn shrink(s: &S15) -> Vec<S15> {
        let mut out = Vec::new();
        // fewer threads / updates / snapshots / partials
        for threads in shrink_list(&s.threads) {
            if threads.len() >= 1 {
                out.push(S15 { threads, schedule: None, ..s.clone() });
            }
        }
        for (t, upds) in s.threads.iter().enumerate() {
            for u in shrink_list(upds) {
                if !u.is_empty() {
                    let mut th = s.threads.clone();
                    th[t] = u;
                    out.push(S15 { threads: th, schedule: None, ..s.clone() });
                }
            }
        }
        for k in shrink_usize(s.snapshots) {
            out.push(S15 { snapshots: k, schedule: None, ..s.clone() });
        }
        for p in shrink_list(&s.partials) {
            out.push(S15 { partials: p, ..s.clone() });
        }
        for (i, p) in s.partials.iter().enumerate() {
            for q in shrink_list(p) {
                let mut ps = s.partials.clone();
                ps[i] = q;
                out.push(S15 { partials: ps, ..s.clone() });
            }
            for (j, (v, c)) in p.iter().enumerate() {
                for u in shrink_u64(*v) {
                    let mut ps = s.partials.clone();
                    ps[i][j] = (u, *c);
                    out.push(S15 { partials: ps, ..s.clone() });
                }
                for d in shrink_u64(*c) {
                    let mut ps = s.partials.clone();
                    ps[i][j] = (*v, d);
                    out.push(S15 { partials: ps, ..s.clone() });
                }
            }
        }
        // finally pin the exact failing schedule
        if s.schedule.is_none() {
            let mut ctx = Ctx::new(false);
            if let Err((_m, Some(sched))) = run_concurrent(s, &mut ctx) {
                out.push(S15 {
                    schedule: Some(sched.trim().to_string()),
                    iters: 1,
                    ..s.clone()
                });
            }
        }
        out
    }

    fn rule() -> &'static str {
        "one case = (endianness, wrapped dispatcher code, 2-4 simulated threads with 1-3 updates each through one shared CodesStatsWrapper (read or write on private streams; values 2^i-1 with i even <= 12, each value used up to three times, also by different threads), an observer thread taking 1-3 snapshots, scheduler {seeded random, PCT depth 1-4} with 20 (quick) / 60 (thorough) schedules per case, then 1-4 partial CodesStats built with update/update_many (multiplicities 0,1,2..1000, values up to 2^50) and merged with a seed-chosen mix of add, +=, +, sum, best_code). evaluations = cases; schedules executed are reported in reach_probes. distinct_nontrivial = distinct interleavings observed, measured as distinct sequences of (which thread completed an update / when a snapshot was taken)"
    }

    fn components() -> (Vec<&'static str>, Vec<&'static str>) {
        (
            vec!["CodesStats (update, update_many, add, +=, +, sum, best_code)", "CodesStatsWrapper (DynamicCodeRead / DynamicCodeWrite through the shared wrapper, stats())", "Codes dispatch", "BufBitWriter / BufBitReader on private streams"],
            vec!["thread scheduler (shuttle, seeded random and PCT)", "Mutex (shuttle::sync::Mutex through the guarded import in src/utils/stats.rs)"],
        )
    }

    fn required_probes(_t: Tier) -> Vec<&'static str> {
        vec!["c15.schedules_executed", "c15.merged_with_sum", "c15.best_code_checked_against_real_size"]
    }

    fn runs(t: Tier) -> u64 {
        match t {
            Tier::Quick => 30_000,
            Tier::Thorough => 600_000,
        }
    }

    fn assumptions() -> Vec<&'static str> {
        vec![
            "the Mutex in CodesStatsWrapper is replaced by shuttle's through the cfg-guarded import (hook); other synchronisation in the crate: none",
            "per-code totals are compared with the real encoded size measured from the writer's output, skipped for (code, value) pairs whose unary part exceeds 20000 bits",
            "the index->parameter mapping is the documented one (zeta k=i+1, golomb b=i+1, exp-golomb k=i, rice log2_b=i, pi k=i+2)",
        ]
    }
}
