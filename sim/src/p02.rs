//! C02 — bit readers return exactly the stream's bits for every operation
//! history.
//!
//! System: REAL BufBitReader<BE|LE> over u8..u64 words and BitReader, over every
//! read backend (zero-extended / strict memory reader, vector / slice writer
//! read back, WordAdapter over SimDisk directly or through std BufReader with
//! benign short-read / Interrupted faults, which must be invisible).
//! Oracle: model reader over the canonical layout, step by step.

use crate::bits::*;
use crate::fw::*;
use crate::model::{BitModel, En};
use crate::rng::Rng;
use crate::rsim::*;
use crate::simdisk::{Fault, FaultPlan};
use serde::{Deserialize, Serialize};

#[derive(Clone, Debug, Serialize, Deserialize)]
pub struct S02 {
    pub e: En,
    pub kind: RdKind,
    pub backend: RdBackend,
    pub pattern: Pattern,
    pub image: Vec<u8>,
    pub ops: Vec<ROp>,
    /// scale scenario (zero run / unary part / copy of 2^32 bits over the sparse stubs)
    #[serde(default)]
    pub giant: Option<crate::giant::Giant>,
}

pub struct C02;

pub fn gen_rd_backend(rng: &mut Rng, sel: u64, benign_rate: u64, max_calls: usize) -> RdBackend {
    let mut plan = FaultPlan::none();
    if benign_rate > 0 {
        // one faulty run in 12 uses a "trickle" device: nearly every call is interrupted or
        // transfers a single byte
        let trickle = rng.chance(1, 12);
        let benign_rate = if trickle { rng.range(85, 100) } else { benign_rate };
        let max_calls = if trickle { max_calls * 12 } else { max_calls };
        for c in 0..max_calls {
            if rng.below(100) < benign_rate {
                if trickle {
                    plan.at.push((c, if rng.chance(1, 2) { Fault::Interrupted } else { Fault::Short(1) }));
                    continue;
                }
                plan.at.push((
                    c,
                    if rng.chance(1, 3) {
                        Fault::Interrupted
                    } else {
                        Fault::Short(rng.usize_range(1, 7))
                    },
                ));
            }
        }
    }
    match sel % 8 {
        6 => RdBackend::StdCursor { cap: None },
        7 => RdBackend::StdCursor {
            cap: Some(*rng.pick(&[1usize, 3, 8, 17, 4096])),
        },
        0 => RdBackend::MemInf,
        1 => RdBackend::MemStrict,
        2 => RdBackend::VecBack,
        3 => RdBackend::SliceBack,
        4 => RdBackend::Adapter { plan },
        _ => RdBackend::BufAdapter {
            cap: *rng.pick(&[1usize, 2, 3, 7, 8, 16, 64, 4096]),
            plan,
        },
    }
}

/// Generate a history of value ops that stays within what C02 asserts.
pub fn gen_rops(rng: &mut Rng, e: En, kind: RdKind, image: &[u8], zero_ext: bool, can_clone: bool, nops: usize) -> Vec<ROp> {
    let wb = kind.word_bits();
    let mut padded = image.to_vec();
    while (padded.len() * 8) % wb != 0 {
        padded.push(0);
    }
    let model = BitModel::from_bytes(e, &padded);
    let data_bits = model.len();
    let limit = if zero_ext { data_bits + 3 * wb } else { data_bits };
    let mut pos = 0usize;
    let mut ops = Vec::with_capacity(nops);
    for _ in 0..nops {
        let room = limit.saturating_sub(pos);
        let pick_n = |rng: &mut Rng, maxn: usize| -> usize {
            let cands = [0usize, 1, wb - 1, wb, wb + 1, 2 * wb - 1, 2 * wb, 2 * wb + 1, 63, 64, wb - (pos % wb), wb - (pos % wb) + 1];
            let n = if rng.chance(1, 2) { *rng.pick(&cands) } else { rng.usize_range(0, 64) };
            n.min(maxn)
        };
        let op = match rng.below(20) {
            0..=7 => {
                let n = pick_n(rng, 64.min(room));
                pos += n;
                ROp::Bits(n)
            }
            8..=11 => match model.unary_at(pos) {
                Some(x) if pos + x as usize + 1 <= data_bits => {
                    pos += x as usize + 1;
                    ROp::Unary
                }
                _ => {
                    let n = pick_n(rng, 64.min(room));
                    pos += n;
                    ROp::Bits(n)
                }
            },
            12..=14 => {
                let n = if rng.chance(1, 4) {
                    if rng.chance(1, 6) {
                        rng.usize_range(0, 80_000)
                    } else {
                        rng.usize_range(0, 3 * wb + 5)
                    }
                } else {
                    pick_n(rng, 64)
                };
                let n = n.min(room);
                pos += n;
                ROp::Skip(n)
            }
            15..=17 => {
                let maxp = kind.max_peek().min(room);
                if maxp == 0 {
                    ROp::Bits(0)
                } else {
                    let n = if rng.chance(1, 3) { maxp } else { rng.usize_range(1, maxp) };
                    ROp::Peek(n)
                }
            }
            _ => {
                if can_clone {
                    ROp::Clone {
                        switch: rng.chance(1, 2),
                        probe: rng.usize_range(0, 64).min(room),
                    }
                } else {
                    let n = pick_n(rng, 64.min(room));
                    pos += n;
                    ROp::Bits(n)
                }
            }
        };
        ops.push(op);
    }
    ops
}

pub fn exec_rops(pfx: &'static str, fam: u64, e: En, kind: RdKind, backend: &RdBackend, image: &[u8], ops: &[ROp], ctx: &mut Ctx) {
    let mut sim = RSim::new(pfx, e, kind, backend, image);
    for (i, op) in ops.iter().enumerate() {
        let mut t = sim.tags(&op.name());
        t.push(format!("backend={}", backend.name()));
        ctx.step(t);
        let arg = match op {
            ROp::Bits(n) | ROp::Skip(n) | ROp::Peek(n) | ROp::Bytes(n) => *n as u64,
            _ => 0,
        };
        sim.sig(ctx, op, arg, fam);
        if let Some(f) = sim.fill() {
            let wb = kind.word_bits();
            // (endianness, reader, bits in buffer, op kind): the state x operation matrix of C02
            ctx.cover("rd.fill_x_op", (e as u64) << 40 | (kind as u64) << 32 | (f as u64) << 8 | op.kind_id());
            ctx.probe_if(f > wb, "rd.fill_above_one_word");
            if let ROp::Bits(n) = op {
                ctx.probe_if(*n == 64 && f == 0, "rd.n64_empty_buffer");
                ctx.probe_if(*n > f && (*n - f) > 2 * wb, "rd.read_spans_3_words");
            }
            if let ROp::Unary = op {
                if let Some(x) = sim.model.unary_at(sim.pos) {
                    ctx.probe_if(x as usize + 1 > f + 2 * wb, "rd.unary_across_3_words");
                }
            }
            if let ROp::Clone { .. } = op {
                ctx.probe_if(f > 0, "rd.clone_nonempty_buffer");
            }
        }
        match sim.step(ctx, i, op) {
            StepOut::Ok => {}
            StepOut::Err(_) | StepOut::Failed => break,
        }
    }
    ctx.ev(sim.pos as u64);
    sim.harvest_faults(ctx);
}

impl Family for C02 {
    type Scn = S02;
    const ID: &'static str = "C02";

    fn gen(rng: &mut Rng, _tier: Tier, index: u64) -> S02 {
        let e = if index % 2 == 0 { En::BE } else { En::LE };
        let kind = RdKind::ALL[((index / 2) % 5) as usize];
        let pattern = PATTERNS[((index / 10) % 5) as usize];
        if crate::giant::is_giant_index(index) {
            // (the index selects the endianness above: draw it anew, giant indices are all odd)
            let e = if rng.chance(1, 2) { En::BE } else { En::LE };
            let g = crate::giant::unary_only(crate::giant::gen_giant(rng));
            return S02 {
                e,
                kind: g.rkind,
                backend: RdBackend::MemStrict,
                pattern,
                image: Vec::new(),
                ops: Vec::new(),
                giant: Some(g),
            };
        }
        let wbytes = kind.word_bits() / 8;
        let nwords = match rng.below(4) {
            0 => rng.usize_range(1, 3),
            _ => rng.usize_range(1, 64),
        };
        let nbytes = (nwords * wbytes).min(256);
        let mut image = gen_image(rng, pattern, nbytes);
        let mut nops = match rng.below(3) {
            0 => rng.usize_range(1, 6),
            _ => rng.usize_range(4, 48),
        };
        // scale: one run in 300 reads an image of ~10 KiB containing a zero run longer than
        // 2^16 bits; one in 300 performs several hundred operations
        let scale = rng.below(300);
        if scale == 0 {
            let hl = wbytes * rng.usize_range(0, 3);
            let head = gen_image(rng, Pattern::Random, hl);
            let run = rng.usize_range(8200, 9000) / wbytes * wbytes;
            let tl = wbytes * rng.usize_range(2, 12);
            let tail = gen_image(rng, Pattern::Random, tl);
            image = head;
            image.extend(std::iter::repeat(0u8).take(run));
            image.extend(tail);
            // make sure a one follows the run
            let l = image.len();
            image[l - 1] |= 0x81;
        } else if scale == 1 {
            nops = rng.usize_range(300, 800);
            image = gen_image(rng, pattern, (wbytes * 64).max(2048));
        }
        let rate = if rng.chance(1, 2) { rng.below(31) } else { 0 };
        let backend = gen_rd_backend(rng, index / 50, rate, nops * 6 + 8);
        let ops = gen_rops(rng, e, kind, &image, backend.zero_extended(), backend.can_clone(), nops);
        S02 {
            e,
            kind,
            backend,
            pattern,
            image,
            ops,
            giant: None,
        }
    }

    fn exec(s: &S02, ctx: &mut Ctx) {
        if let Some(g) = &s.giant {
            return crate::giant::giant_read("C02", s.e, g, ctx);
        }
        exec_rops("C02", 2, s.e, s.kind, &s.backend, &s.image, &s.ops, ctx);
    }

    fn shrink(s: &S02) -> Vec<S02> {
        let mut out = Vec::new();
        if let Some(g) = &s.giant {
            for g2 in crate::giant::shrink_giant(g) {
                out.push(S02 { giant: Some(g2), ..s.clone() });
            }
            return out;
        }
        for ops in shrink_list(&s.ops) {
            out.push(S02 { ops, ..s.clone() });
        }
        for (i, op) in s.ops.iter().enumerate() {
            let alts: Vec<ROp> = match op {
                ROp::Bits(n) => shrink_usize(*n).into_iter().map(ROp::Bits).collect(),
                ROp::Skip(n) => shrink_usize(*n).into_iter().map(ROp::Skip).collect(),
                ROp::Peek(n) => shrink_usize(*n).into_iter().filter(|m| *m > 0).map(ROp::Peek).collect(),
                ROp::Clone { switch, probe } => shrink_usize(*probe)
                    .into_iter()
                    .map(|p| ROp::Clone { switch: *switch, probe: p })
                    .collect(),
                _ => vec![],
            };
            for a in alts {
                let mut t = s.clone();
                t.ops[i] = a;
                out.push(t);
            }
        }
        // simpler backend
        if s.backend != RdBackend::MemInf {
            if let Some(p) = s.backend.plan() {
                if !p.is_empty() {
                    let mut t = s.clone();
                    *t.backend.plan_mut().unwrap() = FaultPlan::none();
                    out.push(t);
                    for np in p.shrink(16) {
                        let mut t = s.clone();
                        *t.backend.plan_mut().unwrap() = np;
                        out.push(t);
                    }
                }
            }
            out.push(S02 { backend: RdBackend::MemStrict, ..s.clone() });
        }
        // zero bytes of the image from the end (keeps length)
        let wbytes = s.kind.word_bits() / 8;
        if s.image.len() > wbytes {
            let mut t = s.clone();
            t.image.truncate(s.image.len() - wbytes);
            out.push(t);
        }
        for i in (0..s.image.len()).rev() {
            if s.image[i] != 0 {
                let mut t = s.clone();
                t.image[i] = 0;
                out.push(t);
                if out.len() > 400 {
                    break;
                }
            }
        }
        out
    }

    fn long_running(s: &S02) -> bool {
        s.giant.is_some()
    }

    fn rule() -> &'static str {
        "one case = (endianness, reader {BufBitReader over u8/u16/u32/u64, BitReader}, backend {zero-extended, strict, vector/slice writer read back, WordAdapter over SimDisk, WordAdapter over std BufReader over SimDisk; the two device backends with benign Short/Interrupted read faults at a per-run rate 0-30%}, image pattern {random, all-ones, all-zeros, sparse, long zero runs} of 1-64 words, history of <=48 read_bits/read_unary/skip_bits/peek_bits(x2)/clone ops with widths biased to 0,1,W-1,W,W+1,2W-1..2W+1,63,64 and to the distance to the next word boundary; on zero-extended backends the history runs up to 3 words past the end). distinct_nontrivial = distinct (endianness, reader, op kind, bits held in the reader's buffer before the op as measured from the backend word counter, width argument, previous op kind) signatures Scale scenarios: one run in 200-400 has several hundred operations or a zero run / unary part / copy / skip / slice above 2^16 bits; one run in 100 000 (sim/src/giant.rs) has a zero run of 2^32-2 .. 2^32+137 bits served by a sparse word source (real head and tail words, zero words in between) and read by one read_unary."
    }

    fn components() -> (Vec<&'static str>, Vec<&'static str>) {
        (
            vec!["BufBitReader<BE|LE> over u8,u16,u32,u64", "BitReader<BE|LE>", "MemWordReader (zero-extended, strict)", "MemWordWriterVec / MemWordWriterSlice read back", "WordAdapter", "std::io::BufReader"],
            vec!["SimDisk (benign faults only in this family)", "sparse zero-run word source (scale scenarios)"],
        )
    }

    fn required_probes(_t: Tier) -> Vec<&'static str> {
        vec![
            "scale.giant_unary_read",
            "rd.fill_above_one_word",
            "rd.n64_empty_buffer",
            "rd.read_spans_3_words",
            "rd.unary_across_3_words",
            "rd.clone_nonempty_buffer",
            "rsim.clone_probe_checked",
        ]
    }

    fn required_cover(t: Tier) -> Vec<(&'static str, usize)> {
        // every (endianness, buffered reader word W, bits in buffer 0..2W-1, op kind in
        // {read_bits, read_unary, skip_bits, peek_bits, clone}) = 2 x 240 x 5 = 2400 pairs
        match t {
            Tier::Quick => vec![("rd.fill_x_op", 2200)],
            Tier::Thorough => vec![("rd.fill_x_op", 2400)],
        }
    }

    fn runs(t: Tier) -> u64 {
        match t {
            Tier::Quick => 3_000_000,
            Tier::Thorough => 200_000_000,
        }
    }

    fn assumptions() -> Vec<&'static str> {
        vec![
            "the bit-vector model follows the documented layout of src/traits/mod.rs",
            "operations needing bits beyond the end of a strict backend are not generated here (C09 covers them)",
        ]
    }
}
