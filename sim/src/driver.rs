//! Parent / worker orchestration, minimisation, replay, known findings and
//! evidence. Workers are separate processes (stderr -> null, because the
//! library prints diagnostics on reader construction) so that a hang or an
//! abort inside library code can be contained, attributed to one scenario and
//! reported with a replay file.

use crate::fw::*;
use crate::rng::{run_seed, Rng};
use serde::{Deserialize, Serialize};
use serde_json::{json, Value};
use std::collections::{BTreeMap, BTreeSet};
use std::io::{BufRead, BufReader, Write};
use std::path::{Path, PathBuf};
use std::process::{Command, Stdio};
use std::sync::{Arc, Mutex};
use std::time::{Duration, Instant};

pub const DEFAULT_SEED: u64 = 20260928;
const PBLOCK: u64 = 128;
const MAX_V_PER_GROUP: u64 = 2;
const PARTIAL_EVERY: u64 = 1 << 16;
const MAX_RESPAWNS: usize = 6;
/// per-worker cap on the number of distinct state signatures kept (memory bound)
const SIG_CAP: usize = 1_500_000;

#[derive(Clone, Debug, Serialize, Deserialize)]
pub struct ReplayFile {
    pub property: String,
    pub seed: u64,
    pub index: u64,
    pub oracle: String,
    pub tags: Vec<String>,
    pub detail: String,
    pub minimised: bool,
    pub scenario: Value,
}

#[derive(Clone, Debug, Serialize, Deserialize)]
struct VLine {
    i: u64,
    oracle: String,
    tags: Vec<String>,
    detail: String,
    scenario: Value,
}

#[derive(Clone, Debug, Default, Serialize, Deserialize)]
struct SLine {
    #[serde(default)]
    upto: u64,
    runs: u64,
    progressed_runs: u64,
    ops: u64,
    steps: u64,
    probes: BTreeMap<String, u64>,
    faults: BTreeMap<String, u64>,
    sigs: Vec<u64>,
    #[serde(default)]
    cover: BTreeMap<String, Vec<u64>>,
    nviol: u64,
    groups: BTreeMap<String, u64>,
    samples: Vec<Value>,
    digest_xor: u64,
}

pub struct Opts {
    pub seed: u64,
    pub tier: Tier,
    pub runs: Option<u64>,
    pub workers: usize,
    pub verif_dir: PathBuf,
    pub no_evidence: bool,
}

fn group_key(oracle: &str, tags: &[String]) -> String {
    format!("{}|{}", oracle, tags.join("\u{1f}"))
}

pub fn gen_scenario<F: Family>(seed: u64, tier: Tier, i: u64) -> F::Scn {
    let mut rng = Rng::new(run_seed(seed, F::ID, i));
    F::gen(&mut rng, tier, i)
}

// ------------------------------------------------------------------ worker

pub fn worker<F: Family>(seed: u64, tier: Tier, from: u64, to: u64, trace_idx: bool, digests: bool, skip: &[u64]) {
    install_panic_hook();
    let out = std::io::stdout();
    let mut out = out.lock();
    let mut st = SLine::default();
    let mut sigs: BTreeSet<u64> = BTreeSet::new();
    let mut cover: BTreeMap<String, BTreeSet<u64>> = BTreeMap::new();
    for i in from..to {
        if skip.contains(&i) {
            continue;
        }
        if !trace_idx && i > from && (i - from) % PARTIAL_EVERY == 0 {
            // partial statistics (without the large sets), so that a later crash of
            // this process does not lose what was already executed
            st.upto = i;
            let _ = writeln!(out, "S {}", serde_json::to_string(&st).unwrap());
        }
        if trace_idx {
            let _ = writeln!(out, "B {}", i);
            let _ = out.flush();
        } else if (i - from) % PBLOCK == 0 {
            let _ = writeln!(out, "P {}", i);
            let _ = out.flush();
        }
        let scn = gen_scenario::<F>(seed, tier, i);
        if F::long_running(&scn) {
            // a scale scenario (seconds of real work): tell the parent not to mistake it for a hang
            let _ = writeln!(out, "L {}", i);
            let _ = out.flush();
        }
        let ctx = exec_guarded::<F>(&scn, false);
        st.runs += 1;
        st.ops += ctx.ops;
        st.steps += ctx.steps;
        if ctx.progressed {
            st.progressed_runs += 1;
            if sigs.len() < SIG_CAP {
                sigs.extend(ctx.sigs.iter());
            }
        }
        st.digest_xor ^= ctx.digest.rotate_left((i % 63) as u32);
        for (k, v) in &ctx.cover {
            cover.entry(k.to_string()).or_default().extend(v.iter());
        }
        if digests {
            let _ = writeln!(out, "D {} {:016x}", i, ctx.digest);
        }
        for (k, v) in &ctx.probes {
            *st.probes.entry(k.to_string()).or_insert(0) += v;
        }
        for (k, v) in &ctx.faults {
            *st.faults.entry(k.clone()).or_insert(0) += v;
        }
        if st.samples.len() < 2 && ctx.progressed && (i - from) % 7 == 3 {
            st.samples.push(serde_json::to_value(&scn).unwrap());
        }
        if let Some(v) = &ctx.violation {
            st.nviol += 1;
            let key = group_key(&v.oracle, &v.tags);
            let c = st.groups.entry(key).or_insert(0);
            *c += 1;
            if *c <= MAX_V_PER_GROUP {
                let vl = VLine {
                    i,
                    oracle: v.oracle.clone(),
                    tags: v.tags.clone(),
                    detail: v.detail.clone(),
                    scenario: serde_json::to_value(&scn).unwrap(),
                };
                let _ = writeln!(out, "V {}", serde_json::to_string(&vl).unwrap());
            }
        }
    }
    if st.samples.is_empty() && to > from {
        st.samples
            .push(serde_json::to_value(gen_scenario::<F>(seed, tier, from)).unwrap());
    }
    st.sigs = sigs.into_iter().collect();
    st.cover = cover.into_iter().map(|(k, v)| (k, v.into_iter().collect())).collect();
    st.upto = to;
    let _ = writeln!(out, "S {}", serde_json::to_string(&st).unwrap());
    let _ = out.flush();
}

// ------------------------------------------------------------------ replay

/// Execute the scenario of a replay file in this process. Returns the
/// violation, if any.
pub fn replay_child<F: Family>(path: &Path, verbose: bool) -> i32 {
    install_panic_hook();
    let txt = match std::fs::read_to_string(path) {
        Ok(t) => t,
        Err(e) => {
            println!("HARNESS-ERROR cannot read {}: {}", path.display(), e);
            return 2;
        }
    };
    let rf: ReplayFile = match serde_json::from_str(&txt) {
        Ok(r) => r,
        Err(e) => {
            println!("HARNESS-ERROR cannot parse {}: {}", path.display(), e);
            return 2;
        }
    };
    let scn: F::Scn = match serde_json::from_value(rf.scenario.clone()) {
        Ok(s) => s,
        Err(e) => {
            println!("HARNESS-ERROR bad scenario in {}: {}", path.display(), e);
            return 2;
        }
    };
    let ctx = exec_guarded::<F>(&scn, verbose);
    if verbose {
        if let Some(t) = &ctx.trace {
            for l in t {
                println!("  {}", l);
            }
        }
    }
    println!("DIGEST {:016x}", ctx.digest);
    match &ctx.violation {
        Some(v) => {
            println!(
                "R {}",
                serde_json::to_string(&json!({"oracle": v.oracle, "tags": v.tags, "detail": v.detail, "step": v.step}))
                    .unwrap()
            );
            1
        }
        None => {
            println!("R null");
            0
        }
    }
}

#[derive(Debug, Clone)]
pub enum ChildOutcome {
    Clean,
    Violation { oracle: String, tags: Vec<String>, detail: String },
    Hang,
    Abort(String),
    Harness(String),
}

fn self_exe() -> PathBuf {
    std::env::current_exe().expect("current_exe")
}

/// Allowance for one announced scale scenario (normally 0.2-3 s; a loaded machine or a
/// debug-assertion build may need many times that).
pub const LONG_ALLOWANCE: Duration = Duration::from_secs(240);

/// Does this replay file hold a scale scenario (see `Family::long_running`)?
fn file_is_long(path: &Path) -> bool {
    std::fs::read_to_string(path).map(|t| ["\"giant\":{", "\"giant\": {", "\"huge\":{", "\"huge\": {"].iter().any(|k| t.contains(k))).unwrap_or(false)
}

/// Run `sim replay-child` on a file with a timeout.
pub fn run_replay_child(prop: &str, path: &Path, timeout: Duration) -> ChildOutcome {
    let timeout = if file_is_long(path) { timeout + LONG_ALLOWANCE } else { timeout };
    let mut child = match Command::new(self_exe())
        .arg("replay-child")
        .arg(prop)
        .arg(path)
        .stdout(Stdio::piped())
        .stderr(Stdio::null())
        .spawn()
    {
        Ok(c) => c,
        Err(e) => return ChildOutcome::Harness(format!("spawn: {}", e)),
    };
    let stdout = child.stdout.take().unwrap();
    let lines = Arc::new(Mutex::new(Vec::<String>::new()));
    let l2 = lines.clone();
    let th = std::thread::spawn(move || {
        for l in BufReader::new(stdout).lines().map_while(Result::ok) {
            l2.lock().unwrap().push(l);
        }
    });
    let start = Instant::now();
    let status = loop {
        match child.try_wait() {
            Ok(Some(s)) => break Some(s),
            Ok(None) => {
                if start.elapsed() > timeout {
                    let _ = child.kill();
                    let _ = child.wait();
                    break None;
                }
                std::thread::sleep(Duration::from_millis(5));
            }
            Err(e) => return ChildOutcome::Harness(format!("wait: {}", e)),
        }
    };
    let _ = th.join();
    let lines = lines.lock().unwrap().clone();
    let status = match status {
        None => return ChildOutcome::Hang,
        Some(s) => s,
    };
    for l in &lines {
        if let Some(rest) = l.strip_prefix("HARNESS-ERROR") {
            return ChildOutcome::Harness(rest.to_string());
        }
    }
    for l in &lines {
        if let Some(rest) = l.strip_prefix("R ") {
            if rest == "null" {
                return ChildOutcome::Clean;
            }
            let v: Value = serde_json::from_str(rest).unwrap_or(Value::Null);
            return ChildOutcome::Violation {
                oracle: v["oracle"].as_str().unwrap_or("").to_string(),
                tags: v["tags"]
                    .as_array()
                    .map(|a| a.iter().map(|x| x.as_str().unwrap_or("").to_string()).collect())
                    .unwrap_or_default(),
                detail: v["detail"].as_str().unwrap_or("").to_string(),
            };
        }
    }
    ChildOutcome::Abort(format!("exit status {:?} without result line", status))
}

// ------------------------------------------------------------------ minimise

pub fn minimise_child<F: Family>(inp: &Path, outp: &Path, budget: u64) -> i32 {
    install_panic_hook();
    let rf: ReplayFile = match std::fs::read_to_string(inp)
        .map_err(|e| e.to_string())
        .and_then(|t| serde_json::from_str(&t).map_err(|e| e.to_string()))
    {
        Ok(r) => r,
        Err(e) => {
            println!("HARNESS-ERROR {}", e);
            return 2;
        }
    };
    let mut cur: F::Scn = match serde_json::from_value(rf.scenario.clone()) {
        Ok(s) => s,
        Err(e) => {
            println!("HARNESS-ERROR {}", e);
            return 2;
        }
    };
    let matches = |ctx: &Ctx| -> Option<String> {
        match &ctx.violation {
            Some(v) if v.oracle == rf.oracle && v.tags == rf.tags => Some(v.detail.clone()),
            _ => None,
        }
    };
    let c0 = exec_guarded::<F>(&cur, false);
    let mut detail = match matches(&c0) {
        Some(d) => d,
        None => {
            println!("HARNESS-ERROR original scenario does not reproduce the violation in the minimiser");
            return 2;
        }
    };
    let mut left = budget;
    let write = |cur: &F::Scn, detail: &str, done: bool| {
        let out = ReplayFile {
            property: rf.property.clone(),
            seed: rf.seed,
            index: rf.index,
            oracle: rf.oracle.clone(),
            tags: rf.tags.clone(),
            detail: detail.to_string(),
            minimised: done,
            scenario: serde_json::to_value(cur).unwrap(),
        };
        let tmp = outp.with_extension("tmp");
        if std::fs::write(&tmp, serde_json::to_string_pretty(&out).unwrap()).is_ok() {
            let _ = std::fs::rename(&tmp, outp);
        }
    };
    write(&cur, &detail, false);
    'outer: loop {
        let cands = F::shrink(&cur);
        for cand in cands {
            if left == 0 {
                break 'outer;
            }
            left -= 1;
            let ctx = exec_guarded::<F>(&cand, false);
            if let Some(d) = matches(&ctx) {
                cur = cand;
                detail = d;
                write(&cur, &detail, false);
                continue 'outer;
            }
        }
        break;
    }
    write(&cur, &detail, true);
    println!("MINIMISED execs={}", budget - left);
    0
}

// ------------------------------------------------------------------ known findings

#[derive(Clone, Debug, Deserialize)]
pub struct KnownFinding {
    pub property: String,
    /// "known" suppresses (prints KNOWN-FINDING); "fixed" suppresses nothing
    pub status: String,
    /// oracle id, exact
    pub oracle: String,
    /// all of these must be among the violation's tags
    pub tags: Vec<String>,
    pub what_fails: String,
    #[serde(default)]
    pub commit: Option<String>,
}

pub fn load_known(verif_dir: &Path) -> Result<Vec<KnownFinding>, String> {
    let p = verif_dir.join("known_findings.json");
    if !p.exists() {
        return Ok(vec![]);
    }
    let t = std::fs::read_to_string(&p).map_err(|e| e.to_string())?;
    let v: Value = serde_json::from_str(&t).map_err(|e| e.to_string())?;
    let arr = v["findings"].as_array().cloned().unwrap_or_default();
    let mut out = Vec::new();
    for a in arr {
        out.push(serde_json::from_value::<KnownFinding>(a).map_err(|e| e.to_string())?);
    }
    Ok(out)
}

fn match_known<'a>(known: &'a [KnownFinding], prop: &str, oracle: &str, tags: &[String]) -> Option<&'a KnownFinding> {
    known.iter().find(|k| {
        k.status == "known" && k.property == prop && (k.oracle == "*" || k.oracle == oracle) && k.tags.iter().all(|t| tags.contains(t))
    })
}

// ------------------------------------------------------------------ parent

struct WorkerState {
    from: u64,
    to: u64,
    last_p: u64,
    last_seen: Instant,
    /// a scale scenario announced itself: no stall detection before this instant
    long_until: Option<Instant>,
    vlines: Vec<VLine>,
    sline: Option<SLine>,
    done: bool,
}

pub struct Group {
    pub oracle: String,
    pub tags: Vec<String>,
    pub count: u64,
    pub first: Option<(u64, String, Value)>, // (index, detail, scenario)
}

fn spawn_worker(prop: &str, seed: u64, tier: Tier, from: u64, to: u64, trace_idx: bool, skip: &[u64]) -> std::io::Result<std::process::Child> {
    let mut c = Command::new(self_exe());
    c.arg("worker")
        .arg(prop)
        .arg("--seed")
        .arg(seed.to_string())
        .arg("--tier")
        .arg(if tier == Tier::Quick { "quick" } else { "thorough" })
        .arg("--from")
        .arg(from.to_string())
        .arg("--to")
        .arg(to.to_string());
    if trace_idx {
        c.arg("--trace-idx");
    }
    if !skip.is_empty() {
        c.arg("--skip")
            .arg(skip.iter().map(|x| x.to_string()).collect::<Vec<_>>().join(","));
    }
    c.stdout(Stdio::piped()).stderr(Stdio::null()).spawn()
}

/// Find the run that hangs/aborts in [from, to): run it index by index.
fn find_culprit(prop: &str, seed: u64, tier: Tier, from: u64, to: u64, per_run: Duration, skip: &[u64]) -> Option<(u64, bool)> {
    // returns (index, is_hang)
    let mut child = spawn_worker(prop, seed, tier, from, to, true, skip).ok()?;
    let stdout = child.stdout.take().unwrap();
    let last = Arc::new(Mutex::new((None::<u64>, Instant::now(), false)));
    let l2 = last.clone();
    let th = std::thread::spawn(move || {
        for l in BufReader::new(stdout).lines().map_while(Result::ok) {
            if let Some(r) = l.strip_prefix("B ") {
                if let Ok(i) = r.trim().parse::<u64>() {
                    let mut g = l2.lock().unwrap();
                    g.0 = Some(i);
                    g.1 = Instant::now();
                }
            } else if l.starts_with("L ") {
                // scale scenario: the per-run limit starts counting after the allowance
                l2.lock().unwrap().1 = Instant::now() + LONG_ALLOWANCE;
            } else if l.starts_with("S ") {
                l2.lock().unwrap().2 = true;
            }
        }
    });
    let res;
    loop {
        match child.try_wait() {
            Ok(Some(_)) => {
                let _ = th.join();
                let g = last.lock().unwrap();
                res = if g.2 { None } else { g.0.map(|i| (i, false)) };
                break;
            }
            Ok(None) => {
                let (idx, when) = {
                    let g = last.lock().unwrap();
                    (g.0, g.1)
                };
                if when.elapsed() > per_run {
                    let _ = child.kill();
                    let _ = child.wait();
                    let _ = th.join();
                    res = idx.map(|i| (i, true));
                    break;
                }
                std::thread::sleep(Duration::from_millis(10));
            }
            Err(_) => {
                res = None;
                break;
            }
        }
    }
    res
}

pub fn parent<F: Family>(opts: &Opts) -> i32 {
    let t0 = Instant::now();
    let prop = F::ID;
    let tier = opts.tier;
    let n = opts.runs.unwrap_or_else(|| F::runs(tier));
    let k = opts.workers.max(1).min(n.max(1) as usize);
    println!(
        "[{}] tier={:?} seed={} runs={} workers={}",
        prop, tier, opts.seed, n, k
    );
    let known = match load_known(&opts.verif_dir) {
        Ok(k) => k,
        Err(e) => {
            println!("HARNESS-ERROR known_findings.json: {}", e);
            return 2;
        }
    };
    let stall = Duration::from_secs(if tier == Tier::Quick { 8 } else { 20 });

    // ---- run the batch: a queue of index segments served by up to k worker
    // processes; a worker that dies or stalls is attributed to one scenario and
    // the rest of its segment is re-queued with that scenario skipped
    struct Seg {
        from: u64,
        to: u64,
        skip: Vec<u64>,
    }
    struct Slot {
        child: std::process::Child,
        state: Arc<Mutex<WorkerState>>,
        thread: Option<std::thread::JoinHandle<()>>,
        seg: Seg,
    }
    let mut queue: std::collections::VecDeque<Seg> = (0..k)
        .map(|w| Seg {
            from: n * w as u64 / k as u64,
            to: n * (w as u64 + 1) / k as u64,
            skip: vec![],
        })
        .collect();
    let mut slots: Vec<Slot> = Vec::new();
    let mut finished: Vec<(Option<SLine>, Vec<VLine>)> = Vec::new();
    let mut harness_errors: Vec<String> = Vec::new();
    let mut groups: BTreeMap<String, Group> = BTreeMap::new();
    let mut respawns = 0usize;
    let mut skipped_runs = 0u64;
    let replay_dir = opts.verif_dir.join("replays");
    let _ = std::fs::create_dir_all(&replay_dir);
    loop {
        while slots.len() < k {
            let Some(seg) = queue.pop_front() else { break };
            if seg.from >= seg.to {
                continue;
            }
            let mut child = match spawn_worker(prop, opts.seed, tier, seg.from, seg.to, false, &seg.skip) {
                Ok(c) => c,
                Err(e) => {
                    println!("HARNESS-ERROR spawn worker: {}", e);
                    return 2;
                }
            };
            let stdout = child.stdout.take().unwrap();
            let state = Arc::new(Mutex::new(WorkerState {
                from: seg.from,
                to: seg.to,
                last_p: seg.from,
                last_seen: Instant::now(),
                long_until: None,
                vlines: vec![],
                sline: None,
                done: false,
            }));
            let st2 = state.clone();
            let thread = std::thread::spawn(move || {
                for l in BufReader::new(stdout).lines().map_while(Result::ok) {
                    let mut g = st2.lock().unwrap();
                    g.last_seen = Instant::now();
                    if l.starts_with("L ") {
                        g.long_until = Some(Instant::now() + LONG_ALLOWANCE);
                        continue;
                    }
                    g.long_until = None;
                    if let Some(r) = l.strip_prefix("P ") {
                        if let Ok(i) = r.trim().parse::<u64>() {
                            g.last_p = i;
                        }
                    } else if let Some(r) = l.strip_prefix("V ") {
                        if let Ok(v) = serde_json::from_str::<VLine>(r) {
                            g.vlines.push(v);
                        }
                    } else if let Some(r) = l.strip_prefix("S ") {
                        if let Ok(s) = serde_json::from_str::<SLine>(r) {
                            g.sline = Some(s);
                        }
                    }
                }
                st2.lock().unwrap().done = true;
            });
            slots.push(Slot {
                child,
                state,
                thread: Some(thread),
                seg,
            });
        }
        if slots.is_empty() {
            break;
        }
        let mut i = 0;
        while i < slots.len() {
            let status = slots[i].child.try_wait();
            let mut failed: Option<bool> = None; // Some(hang?)
            let mut done = false;
            match status {
                Ok(Some(st)) => {
                    done = true;
                    if !st.success() {
                        failed = Some(false);
                    }
                }
                Ok(None) => {
                    let (seen, long_until) = {
                        let g = slots[i].state.lock().unwrap();
                        (g.last_seen, g.long_until)
                    };
                    if seen.elapsed() > stall && long_until.map(|t| Instant::now() > t).unwrap_or(true) {
                        let _ = slots[i].child.kill();
                        let _ = slots[i].child.wait();
                        done = true;
                        failed = Some(true);
                    }
                }
                Err(_) => {
                    done = true;
                    failed = Some(false);
                }
            }
            if !done {
                i += 1;
                continue;
            }
            let mut slot = slots.swap_remove(i);
            if let Some(t) = slot.thread.take() {
                let _ = t.join();
            }
            let (sline, vlines, last_p) = {
                let mut g = slot.state.lock().unwrap();
                (g.sline.take(), std::mem::take(&mut g.vlines), g.last_p)
            };
            match failed {
                None => {
                    if sline.as_ref().map(|s| s.upto) != Some(slot.seg.to) {
                        harness_errors.push(format!("worker for runs {}..{} ended without final statistics", slot.seg.from, slot.seg.to));
                    }
                    finished.push((sline, vlines));
                }
                Some(hang) => {
                    let blk_to = (last_p + PBLOCK).min(slot.seg.to);
                    println!(
                        "[{}] worker for runs {}..{} {} in runs {}..{}; locating the scenario",
                        prop,
                        slot.seg.from,
                        slot.seg.to,
                        if hang { "stalled" } else { "died" },
                        last_p,
                        blk_to
                    );
                    let upto = sline.as_ref().map(|s| s.upto).unwrap_or(slot.seg.from);
                    let kept: Vec<VLine> = vlines.into_iter().filter(|v| v.i < upto).collect();
                    finished.push((sline, kept));
                    match find_culprit(prop, opts.seed, tier, last_p, blk_to, Duration::from_secs(5), &slot.seg.skip) {
                        Some((ci, is_hang)) => {
                            let scn = gen_scenario::<F>(opts.seed, tier, ci);
                            let oracle = format!("{}.{}", prop, if is_hang { "hang" } else { "abort" });
                            let tags = F::scenario_tags(&scn);
                            let key = group_key(&oracle, &tags);
                            let e = groups.entry(key).or_insert_with(|| Group {
                                oracle: oracle.clone(),
                                tags: tags.clone(),
                                count: 0,
                                first: None,
                            });
                            e.count += 1;
                            let better = match &e.first {
                                None => true,
                                Some((i0, _, _)) => ci < *i0,
                            };
                            if better {
                                e.first = Some((
                                    ci,
                                    format!("run {} {}", ci, if is_hang { "does not terminate" } else { "aborts the process" }),
                                    serde_json::to_value(&scn).unwrap(),
                                ));
                            }
                            skipped_runs += 1;
                            respawns += 1;
                            if respawns <= MAX_RESPAWNS {
                                let mut skip = slot.seg.skip.clone();
                                skip.push(ci);
                                queue.push_back(Seg {
                                    from: upto,
                                    to: slot.seg.to,
                                    skip,
                                });
                            } else {
                                harness_errors.push(format!(
                                    "more than {} worker crashes/hangs; runs {}..{} not executed",
                                    MAX_RESPAWNS, upto, slot.seg.to
                                ));
                            }
                        }
                        None => {
                            harness_errors.push(format!(
                                "worker for runs {}..{} {} but the failure did not reproduce when re-running block {}..{}",
                                slot.seg.from,
                                slot.seg.to,
                                if hang { "stalled" } else { "died" },
                                last_p,
                                blk_to
                            ));
                        }
                    }
                }
            }
        }
        std::thread::sleep(Duration::from_millis(15));
    }

    // ---- aggregate
    let mut agg = SLine::default();
    let mut sigs: BTreeSet<u64> = BTreeSet::new();
    let mut cover: BTreeMap<String, BTreeSet<u64>> = BTreeMap::new();
    for (sline, vlines) in &finished {
        if let Some(s) = sline {
            agg.runs += s.runs;
            agg.progressed_runs += s.progressed_runs;
            agg.ops += s.ops;
            agg.steps += s.steps;
            agg.nviol += s.nviol;
            agg.digest_xor ^= s.digest_xor;
            for (k2, v) in &s.probes {
                *agg.probes.entry(k2.clone()).or_insert(0) += v;
            }
            for (k2, v) in &s.faults {
                *agg.faults.entry(k2.clone()).or_insert(0) += v;
            }
            sigs.extend(s.sigs.iter());
            for (k2, v) in &s.cover {
                cover.entry(k2.clone()).or_default().extend(v.iter());
            }
            for (k2, v) in &s.groups {
                let e = groups.entry(k2.clone()).or_insert_with(|| {
                    let mut parts = k2.splitn(2, '|');
                    let oracle = parts.next().unwrap_or("").to_string();
                    let tags: Vec<String> = parts
                        .next()
                        .unwrap_or("")
                        .split('\u{1f}')
                        .filter(|x| !x.is_empty())
                        .map(|x| x.to_string())
                        .collect();
                    Group {
                        oracle,
                        tags,
                        count: 0,
                        first: None,
                    }
                });
                e.count += v;
            }
            if agg.samples.len() < 3 {
                agg.samples.extend(s.samples.iter().take(1).cloned());
            }
        }
        for v in vlines {
            let key = group_key(&v.oracle, &v.tags);
            let e = groups.entry(key).or_insert_with(|| Group {
                oracle: v.oracle.clone(),
                tags: v.tags.clone(),
                count: 0,
                first: None,
            });
            let better = match &e.first {
                None => true,
                Some((i, _, _)) => v.i < *i,
            };
            if better {
                e.first = Some((v.i, v.detail.clone(), v.scenario.clone()));
            }
        }
    }
    // groups known only from counters (their V lines were dropped): cannot be
    // replayed, so they must not exist
    for (k2, g) in groups.iter() {
        if g.first.is_none() && g.count > 0 {
            harness_errors.push(format!("violation group {} has no recorded scenario", k2));
        }
    }

    // ---- classify (known finding or not), minimise the unknown ones, confirm
    let mut violations: Vec<(String, PathBuf)> = Vec::new();
    let mut known_seen: Vec<String> = Vec::new();
    // known finding index -> (groups, occurrences, first (idx, oracle, tags, detail, scenario))
    let mut known_hits: BTreeMap<usize, (u64, u64, Option<(u64, String, Vec<String>, String, Value)>)> = BTreeMap::new();
    let mut unknown: Vec<&Group> = Vec::new();
    for (_key, g) in groups.iter() {
        if g.oracle.starts_with("HARNESS") {
            harness_errors.push(format!(
                "{} x{}: {}",
                g.oracle,
                g.count,
                g.first.as_ref().map(|f| f.1.clone()).unwrap_or_default()
            ));
            continue;
        }
        if g.first.is_none() {
            continue;
        }
        let ki = known.iter().position(|k| {
            k.status == "known"
                && k.property == prop
                && (k.oracle == "*" || k.oracle == g.oracle)
                && k.tags.iter().all(|t| g.tags.contains(t))
        });
        match ki {
            Some(ki) => {
                let e = known_hits.entry(ki).or_insert((0, 0, None));
                e.0 += 1;
                e.1 += g.count;
                let (idx, detail, scn) = g.first.clone().unwrap();
                let better = match &e.2 {
                    None => true,
                    Some((i, ..)) => idx < *i,
                };
                if better {
                    e.2 = Some((idx, g.oracle.clone(), g.tags.clone(), detail, scn));
                }
            }
            None => unknown.push(g),
        }
    }
    let write_raw = |base: &str, idx: u64, oracle: &str, tags: &[String], detail: &str, scn: &Value| -> Option<PathBuf> {
        let raw = replay_dir.join(format!("{}.raw.json", base));
        let rf = ReplayFile {
            property: prop.to_string(),
            seed: opts.seed,
            index: idx,
            oracle: oracle.to_string(),
            tags: tags.to_vec(),
            detail: detail.to_string(),
            minimised: false,
            scenario: scn.clone(),
        };
        match std::fs::write(&raw, serde_json::to_string_pretty(&rf).unwrap()) {
            Ok(()) => Some(raw),
            Err(_) => None,
        }
    };
    let confirms = |outcome: &ChildOutcome, oracle: &str, tags: &[String]| -> bool {
        match outcome {
            ChildOutcome::Violation { oracle: o, tags: t, .. } => o == oracle && t == tags,
            ChildOutcome::Hang => oracle.ends_with(".hang"),
            ChildOutcome::Abort(_) => oracle.ends_with(".abort"),
            _ => false,
        }
    };
    // known findings: one line per listed finding, confirmed on its first occurrence
    for (ki, (ngroups, count, first)) in &known_hits {
        let kf = &known[*ki];
        let (idx, oracle, tags, detail, scn) = first.clone().unwrap();
        let base = format!("{}-{}-{}-known{}", prop, opts.seed, idx, ki);
        let Some(raw) = write_raw(&base, idx, &oracle, &tags, &detail, &scn) else {
            println!("HARNESS-ERROR cannot write replay file");
            return 2;
        };
        let outcome = run_replay_child(prop, &raw, Duration::from_secs(20));
        if !confirms(&outcome, &oracle, &tags) {
            harness_errors.push(format!(
                "known finding occurrence {} (run {}) did not reproduce on replay: {:?}",
                oracle, idx, outcome
            ));
            continue;
        }
        let line = format!(
            "KNOWN-FINDING: property={} {} [occurrences={} in {} (oracle,tags) groups; first: oracle={} run={} replay={}]",
            prop,
            kf.what_fails,
            count,
            ngroups,
            oracle,
            idx,
            raw.display()
        );
        println!("{}", line);
        known_seen.push(line);
    }
    // unknown violations
    let max_min = 10;
    for (gi, g) in unknown.iter().enumerate() {
        let (idx, detail, scn) = g.first.clone().unwrap();
        let base = format!("{}-{}-{}-g{}", prop, opts.seed, idx, gi + 1);
        let Some(raw) = write_raw(&base, idx, &g.oracle, &g.tags, &detail, &scn) else {
            println!("HARNESS-ERROR cannot write replay file");
            return 2;
        };
        let min = replay_dir.join(format!("{}.json", base));
        let is_hang = g.oracle.ends_with(".hang") || g.oracle.ends_with(".abort");
        let mut final_path = raw.clone();
        if !is_hang && gi < max_min {
            let budget = if tier == Tier::Quick { 1500 } else { 4000 };
            let mut child = Command::new(self_exe())
                .arg("minimise-child")
                .arg(prop)
                .arg(&raw)
                .arg(&min)
                .arg(budget.to_string())
                .stdout(Stdio::null())
                .stderr(Stdio::null())
                .spawn()
                .ok();
            if let Some(c) = &mut child {
                let start = Instant::now();
                loop {
                    match c.try_wait() {
                        Ok(Some(_)) => break,
                        Ok(None) => {
                            let limit = Duration::from_secs(if tier == Tier::Quick { 45 } else { 120 }) + if file_is_long(&raw) { LONG_ALLOWANCE } else { Duration::ZERO };
                            if start.elapsed() > limit {
                                let _ = c.kill();
                                let _ = c.wait();
                                break;
                            }
                            std::thread::sleep(Duration::from_millis(10));
                        }
                        Err(_) => break,
                    }
                }
            }
            if min.exists() {
                final_path = min.clone();
            }
        }
        let mut outcome = run_replay_child(prop, &final_path, Duration::from_secs(20));
        if !confirms(&outcome, &g.oracle, &g.tags) && final_path != raw {
            final_path = raw.clone();
            outcome = run_replay_child(prop, &final_path, Duration::from_secs(20));
        }
        if !confirms(&outcome, &g.oracle, &g.tags) {
            harness_errors.push(format!(
                "violation {} (run {}) did not reproduce on replay of {}: {:?}",
                g.oracle,
                idx,
                final_path.display(),
                outcome
            ));
            continue;
        }
        if final_path != raw {
            let _ = std::fs::remove_file(&raw);
        }
        let detail = match &outcome {
            ChildOutcome::Violation { detail, .. } => detail.clone(),
            _ => detail,
        };
        println!(
            "[{}] violation oracle={} tags=[{}] occurrences={} first_run={} :: {}",
            prop,
            g.oracle,
            g.tags.join(","),
            g.count,
            idx,
            detail
        );
        violations.push((g.oracle.clone(), final_path.clone()));
    }

    // ---- reach requirements
    let mut missing_probes = Vec::new();
    if violations.is_empty() && harness_errors.is_empty() {
        for p in F::required_probes(tier) {
            if agg.probes.get(p).copied().unwrap_or(0) == 0 {
                missing_probes.push(p);
            }
        }
    }

    let cover_sizes: BTreeMap<String, usize> = cover.iter().map(|(k, v)| (k.clone(), v.len())).collect();
    if violations.is_empty() && harness_errors.is_empty() {
        for (name, min) in F::required_cover(tier) {
            if cover_sizes.get(name).copied().unwrap_or(0) < min {
                missing_probes.push(name);
            }
        }
    }
    // ---- evidence
    let wall = t0.elapsed().as_secs_f64();
    let (real, stub) = F::components();
    let runs_per_hour = if wall > 0.0 { agg.runs as f64 * 3600.0 / wall } else { 0.0 };
    let ev = json!({
        "property_id": prop,
        "tier": if tier == Tier::Quick { "quick" } else { "thorough" },
        "seed": opts.seed,
        "level": F::level(),
        "coverage": {
            "evaluations": agg.runs,
            "distinct_nontrivial": sigs.len(),
            "distinct_nontrivial_note": if sigs.len() >= SIG_CAP { "lower bound: per-worker signature sets are capped at 1.5M entries" } else { "exact count of distinct signatures" },
            "rule": F::rule(),
            "samples": agg.samples,
            "simulated_runs": agg.runs,
            "runs_that_made_progress": agg.progressed_runs,
            "library_operations_executed": agg.ops,
            "logical_steps": agg.steps,
            "simulated_time": "not applicable: the library has no clock or timer; logical steps are reported instead",
            "runs_per_hour": runs_per_hour.round(),
            "seeds_per_hour": runs_per_hour.round(),
            "faults_fired": agg.faults,
            "reach_probes": agg.probes,
            "coverage_sets": cover_sizes,
            "missing_required_probes": missing_probes,
            "components_real": real,
            "components_stub": stub,
            "violation_groups": groups.len(),
            "runs_with_violation": agg.nviol,
            "known_findings_seen": known_seen,
            "event_digest_xor": format!("{:016x}", agg.digest_xor),
            "workers": k,
            "exhaustive": false,
        },
        "assumptions": F::assumptions(),
        "wall_s": (wall * 1000.0).round() / 1000.0,
        "violations": violations.len(),
    });
    if !opts.no_evidence {
        let evdir = opts.verif_dir.join("evidence");
        let _ = std::fs::create_dir_all(&evdir);
        let p = evdir.join(format!("{}.json", prop));
        if let Err(e) = std::fs::write(&p, serde_json::to_string_pretty(&ev).unwrap()) {
            println!("HARNESS-ERROR cannot write evidence: {}", e);
            return 2;
        }
    }
    println!(
        "[{}] runs={} progressed={} ops={} distinct_state_signatures={} faults={:?} wall={:.1}s",
        prop,
        agg.runs,
        agg.progressed_runs,
        agg.ops,
        sigs.len(),
        agg.faults,
        wall
    );
    if !harness_errors.is_empty() {
        for e in &harness_errors {
            println!("HARNESS-ERROR {}", e);
        }
        if violations.is_empty() {
            return 2;
        }
    }
    if !violations.is_empty() {
        for (_o, p) in &violations {
            println!("VIOLATION property={} replay={}", prop, p.display());
        }
        return 1;
    }
    if agg.runs + skipped_runs < n {
        println!("HARNESS-ERROR only {} of {} runs executed", agg.runs + skipped_runs, n);
        return 2;
    }
    if !missing_probes.is_empty() {
        println!(
            "HARNESS-ERROR reach probes stuck at zero (workload must change): {:?}",
            missing_probes
        );
        return 2;
    }
    println!("[{}] OK", prop);
    0
}

/// `sim replay <prop> <file>`: run in a child with a timeout, print the
/// VIOLATION line if it reproduces.
pub fn replay_parent(prop: &str, path: &Path, verif_dir: &Path) -> i32 {
    let txt = std::fs::read_to_string(path).unwrap_or_default();
    let rf: Option<ReplayFile> = serde_json::from_str(&txt).ok();
    let known = load_known(verif_dir).unwrap_or_default();
    match run_replay_child(prop, path, Duration::from_secs(30)) {
        ChildOutcome::Clean => {
            println!("replay: no violation");
            0
        }
        ChildOutcome::Violation { oracle, tags, detail } => {
            println!("replay: oracle={} tags=[{}] :: {}", oracle, tags.join(","), detail);
            if let Some(rf) = &rf {
                if rf.oracle != oracle {
                    println!("replay: NOTE recorded oracle was {}", rf.oracle);
                }
            }
            if let Some(kf) = match_known(&known, prop, &oracle, &tags) {
                println!("KNOWN-FINDING: property={} {}", prop, kf.what_fails);
                0
            } else {
                println!("VIOLATION property={} replay={}", prop, path.display());
                1
            }
        }
        ChildOutcome::Hang => {
            println!("replay: scenario does not terminate (killed after 30 s)");
            println!("VIOLATION property={} replay={}", prop, path.display());
            1
        }
        ChildOutcome::Abort(m) => {
            println!("replay: process aborted: {}", m);
            println!("VIOLATION property={} replay={}", prop, path.display());
            1
        }
        ChildOutcome::Harness(m) => {
            println!("HARNESS-ERROR {}", m);
            2
        }
    }
}
