//! C19 (part) — argument checking fires exactly on dirty arguments.
//!
//! Exhaustive sub-family "C19W": for every (endianness, backend word, width n,
//! bit position b >= n, buffer pre-fill class) write_bits(v | 1<<b, n) must panic
//! iff the simulator was built with the crate's `checks` feature, and a clean
//! argument must never panic. The build-configuration replay (same seeded
//! histories on differently built copies of the library, event-log digests
//! compared) is orchestrated by /verif/tools/c19.py.

use crate::bits::*;
use crate::fw::*;
use crate::model::En;
use crate::rng::Rng;
use serde::{Deserialize, Serialize};
use std::mem::ManuallyDrop;

#[derive(Clone, Debug, Serialize, Deserialize)]
pub struct S19W {
    pub e: En,
    pub word: Wd,
    pub n: usize,
    /// dirty bit position (>= n), or None for a clean argument
    pub dirty_bit: Option<usize>,
    pub low: u64,
    pub prefill: usize,
}

pub struct C19W;

pub const CHECKS_ON: bool = cfg!(feature = "checks");

/// number of (n, b) pairs with 0 <= n <= 63, n <= b <= 63
const PAIRS: u64 = 64 * 65 / 2;

impl Family for C19W {
    type Scn = S19W;
    const ID: &'static str = "C19W";

    fn gen(rng: &mut Rng, _tier: Tier, index: u64) -> S19W {
        // systematic enumeration: index -> (e, word, (n, b) pair | clean)
        let e = if index % 2 == 0 { En::BE } else { En::LE };
        let word = Wd::ALL[((index / 2) % 5) as usize];
        let k = (index / 10) % (PAIRS + 65);
        let (n, dirty_bit) = if k < PAIRS {
            // decode pair number k into (n, b)
            let mut n = 0usize;
            let mut rem = k;
            loop {
                let row = 64 - n as u64;
                if rem < row {
                    break;
                }
                rem -= row;
                n += 1;
            }
            (n, Some(n + rem as usize))
        } else {
            ((k - PAIRS) as usize, None)
        };
        let low = if n == 0 { 0 } else if n >= 64 { rng.next() } else { rng.next() & ((1u64 << n) - 1) };
        let prefill = *rng.pick(&[0usize, 1, word.bits() - 1, word.bits() / 2, 7]);
        S19W {
            e,
            word,
            n,
            dirty_bit,
            low,
            prefill,
        }
    }

    fn exec(s: &S19W, ctx: &mut Ctx) {
        ctx.step(vec![
            format!("e={:?}", s.e),
            format!("word={:?}", s.word),
            format!("checks={}", CHECKS_ON),
            format!("dirty={}", s.dirty_bit.is_some()),
        ]);
        ctx.ops += 1;
        let (w, _h) = AnyWriter::new(s.e, s.word, &WrBackend::Rec { refuse_at: None });
        let mut w = ManuallyDrop::new(w);
        let mut left = s.prefill;
        while left > 0 {
            let k = left.min(64);
            let _ = w.write_bits(0, k);
            left -= k;
        }
        let v = s.low | s.dirty_bit.map(|b| 1u64 << b).unwrap_or(0);
        let r = guard(|| w.write_bits(v, s.n));
        ctx.sig(&[19, s.e as u64, s.word as u64, s.n as u64, s.dirty_bit.map(|b| b as u64).unwrap_or(99)]);
        ctx.progressed = true;
        let panicked = r.is_err();
        ctx.ev(panicked as u64);
        let expect = CHECKS_ON && s.dirty_bit.is_some();
        if panicked != expect {
            let msg = match &r {
                Err(p) => p.clone(),
                Ok(_) => String::new(),
            };
            let _ = guard(|| w.flush());
            return ctx.fail(
                if expect { "C19.dirty_argument_not_rejected" } else { "C19.spurious_check_panic" },
                format!(
                    "write_bits({:#x}, {}) on a {:?} {:?} writer ({} bits pre-filled), built with checks={}: panicked={} {}",
                    v, s.n, s.e, s.word, s.prefill, CHECKS_ON, panicked, msg
                ),
            );
        }
        if !panicked {
            let _ = guard(|| w.flush());
            let _ = guard(|| unsafe { ManuallyDrop::drop(&mut w) });
        }
    }

    fn shrink(s: &S19W) -> Vec<S19W> {
        let mut out = Vec::new();
        if s.prefill != 0 {
            out.push(S19W { prefill: 0, ..s.clone() });
        }
        if s.low != 0 {
            out.push(S19W { low: 0, ..s.clone() });
        }
        out
    }

    fn rule() -> &'static str {
        "exhaustive over (endianness, backend word u8..u128, width n in 0..=63, single dirty bit b in n..=63) plus clean arguments for n in 0..=64, with 5 buffer pre-fill levels sampled; the expected outcome is a panic iff the simulator was built with the crate's `checks` feature"
    }

    fn components() -> (Vec<&'static str>, Vec<&'static str>) {
        (vec!["BufBitWriter::write_bits argument assertion under cfg(feature = \"checks\")"], vec!["recording word sink"])
    }

    fn runs(_t: Tier) -> u64 {
        10 * (PAIRS + 65)
    }
}
