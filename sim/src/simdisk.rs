//! SimDisk: the simulated byte device at the bottom of every `std::io` seam.
//!
//! An in-memory byte vector with a cursor implementing `Read + Write + Seek`.
//! Every call consults an explicit, pre-generated fault plan indexed by call
//! number (part of the scenario, never drawn at run time), so that one scenario
//! is one exactly repeatable execution. All behaviours are legal under the
//! `std::io` contracts.

use serde::{Deserialize, Serialize};
use std::cell::RefCell;
use std::collections::BTreeMap;
use std::io::{self, ErrorKind, Read, Seek, SeekFrom, Write};
use std::rc::Rc;

#[derive(Clone, Copy, Debug, PartialEq, Eq, Serialize, Deserialize, Hash, PartialOrd, Ord)]
pub enum ErrK {
    Other,
    UnexpectedEof,
    PermissionDenied,
    BrokenPipe,
    WriteZero,
    TimedOut,
    WouldBlock,
    InvalidData,
    Interrupted,
}

impl ErrK {
    pub fn to_kind(self) -> ErrorKind {
        match self {
            ErrK::Other => ErrorKind::Other,
            ErrK::UnexpectedEof => ErrorKind::UnexpectedEof,
            ErrK::PermissionDenied => ErrorKind::PermissionDenied,
            ErrK::BrokenPipe => ErrorKind::BrokenPipe,
            ErrK::WriteZero => ErrorKind::WriteZero,
            ErrK::TimedOut => ErrorKind::TimedOut,
            ErrK::WouldBlock => ErrorKind::WouldBlock,
            ErrK::InvalidData => ErrorKind::InvalidData,
            ErrK::Interrupted => ErrorKind::Interrupted,
        }
    }
    pub const HARD: [ErrK; 7] = [
        ErrK::Other,
        ErrK::UnexpectedEof,
        ErrK::PermissionDenied,
        ErrK::BrokenPipe,
        ErrK::TimedOut,
        ErrK::WouldBlock,
        ErrK::InvalidData,
    ];
}

#[derive(Clone, Copy, Debug, PartialEq, Eq, Serialize, Deserialize)]
pub enum Fault {
    /// Transfer at most k bytes (k >= 1) on this read/write call. Benign.
    Short(usize),
    /// Return ErrorKind::Interrupted, nothing transferred. Benign (retryable).
    Interrupted,
    /// write returns Ok(0) / read returns Ok(0) although data remain.
    Zero,
    /// Non-retryable error, nothing transferred.
    Hard(ErrK),
    /// Seek fails.
    SeekErr,
}

impl Fault {
    pub fn is_benign(&self) -> bool {
        matches!(self, Fault::Short(_) | Fault::Interrupted)
    }
    pub fn name(&self) -> &'static str {
        match self {
            Fault::Short(_) => "short",
            Fault::Interrupted => "interrupted",
            Fault::Zero => "zero",
            Fault::Hard(_) => "hard",
            Fault::SeekErr => "seek_err",
        }
    }
}

/// Fault plan: call index (over all read/write/flush/seek calls on one handle)
/// -> fault. Serialised as a sorted list.
#[derive(Clone, Debug, Default, PartialEq, Eq, Serialize, Deserialize)]
pub struct FaultPlan {
    pub at: Vec<(usize, Fault)>,
    /// Device capacity in bytes for writes (None = unbounded).
    pub capacity: Option<usize>,
    /// Read side: this many extra bytes (0xFF) follow the whole words of the data on the device,
    /// i.e. the byte stream ends inside a word (not a fault: a property of the medium).
    #[serde(default)]
    pub trailing: usize,
    /// Read side: the device is handed to the adapter already positioned at this word (the
    /// adapter is created over a stream that is not at offset 0).
    #[serde(default)]
    pub start_words: usize,
}

impl FaultPlan {
    pub fn none() -> Self {
        FaultPlan::default()
    }
    pub fn is_empty(&self) -> bool {
        self.at.is_empty() && self.capacity.is_none()
    }
    pub fn benign_only(&self) -> bool {
        self.capacity.is_none() && self.at.iter().all(|(_, f)| f.is_benign())
    }
    /// Simpler fault plans: drop chunks of entries; drop one Interrupted entry and move the
    /// later entries one call earlier (an interrupted call is retried, so removing it
    /// shifts the rest of the trace); turn short transfers into longer ones.
    pub fn shrink(&self, max_len: usize) -> Vec<FaultPlan> {
        let mut out = Vec::new();
        for at in crate::fw::shrink_list(&self.at) {
            out.push(FaultPlan { at, ..self.clone() });
        }
        for (i, (_, f)) in self.at.iter().enumerate() {
            if matches!(f, Fault::Interrupted) {
                let mut at = self.at.clone();
                at.remove(i);
                for e in at.iter_mut().skip(i) {
                    e.0 = e.0.saturating_sub(1);
                }
                out.push(FaultPlan { at, ..self.clone() });
            }
            if let Fault::Short(k) = f {
                if *k + 1 < max_len {
                    let mut at = self.at.clone();
                    at[i].1 = Fault::Short(k + 1);
                    out.push(FaultPlan { at, ..self.clone() });
                }
            }
        }
        if self.capacity.is_some() {
            out.push(FaultPlan { capacity: None, ..self.clone() });
        }
        if self.trailing != 0 {
            out.push(FaultPlan { trailing: 0, ..self.clone() });
        }
        if self.start_words != 0 {
            out.push(FaultPlan { start_words: 0, ..self.clone() });
        }
        out
    }

    fn map(&self) -> BTreeMap<usize, Fault> {
        self.at.iter().cloned().collect()
    }
}

#[derive(Clone, Copy, Debug, PartialEq, Eq)]
pub enum DiskOp {
    Read,
    Write,
    Flush,
    Seek,
}

#[derive(Clone, Debug, PartialEq, Eq)]
pub struct DiskEv {
    pub op: DiskOp,
    pub req: usize,
    /// Ok(n) or Err(kind)
    pub res: Result<usize, ErrorKind>,
    pub fault: Option<&'static str>,
}

#[derive(Debug, Default)]
pub struct DiskShared {
    pub data: Vec<u8>,
    pub log: Vec<DiskEv>,
    /// (fault name, op) -> times it actually fired
    pub fired: BTreeMap<(&'static str, &'static str), u64>,
    /// number of faults that fired and were not benign
    pub hard_fired: u64,
    pub benign_fired: u64,
    pub calls: u64,
    /// byte position of the device object that acted last (after the call)
    pub cursor: u64,
}

#[derive(Debug)]
pub struct SimDisk {
    pub shared: Rc<RefCell<DiskShared>>,
    pos: u64,
    plan: Rc<BTreeMap<usize, Fault>>,
    capacity: Option<usize>,
    call: usize,
}

impl Clone for SimDisk {
    /// Deep with respect to the cursor and the position in the fault plan; the
    /// (read-only, when cloned) content is shared.
    fn clone(&self) -> Self {
        SimDisk {
            shared: self.shared.clone(),
            pos: self.pos,
            plan: self.plan.clone(),
            capacity: self.capacity,
            call: self.call,
        }
    }
}

fn opname(op: DiskOp) -> &'static str {
    match op {
        DiskOp::Read => "read",
        DiskOp::Write => "write",
        DiskOp::Flush => "flush",
        DiskOp::Seek => "seek",
    }
}

impl SimDisk {
    pub fn new(data: Vec<u8>, plan: &FaultPlan) -> Self {
        SimDisk {
            shared: Rc::new(RefCell::new(DiskShared {
                data,
                ..Default::default()
            })),
            pos: 0,
            plan: Rc::new(plan.map()),
            capacity: plan.capacity,
            call: 0,
        }
    }

    /// Position the device without consuming a call of the fault plan (state before the
    /// object under test gets it).
    pub fn pre_position(&mut self, pos: u64) {
        self.pos = pos;
        self.shared.borrow_mut().cursor = pos;
    }

    pub fn handle(&self) -> Rc<RefCell<DiskShared>> {
        self.shared.clone()
    }

    pub fn position(&self) -> u64 {
        self.pos
    }

    fn next_fault(&mut self, op: DiskOp) -> Option<Fault> {
        let idx = self.call;
        self.call += 1;
        self.shared.borrow_mut().calls += 1;
        let f = self.plan.get(&idx).copied()?;
        // faults that do not apply to this kind of call do not fire
        let applies = match (op, &f) {
            (DiskOp::Read | DiskOp::Write, Fault::Short(_)) => true,
            (DiskOp::Read | DiskOp::Write, Fault::Interrupted) => true,
            (DiskOp::Read | DiskOp::Write, Fault::Zero) => true,
            (_, Fault::Hard(_)) => true,
            (DiskOp::Seek, Fault::SeekErr) => true,
            _ => false,
        };
        if applies {
            Some(f)
        } else {
            None
        }
    }

    fn record(&mut self, op: DiskOp, req: usize, res: Result<usize, ErrorKind>, fault: Option<Fault>, fired: bool) {
        let mut sh = self.shared.borrow_mut();
        sh.cursor = self.pos;
        let fname = if fired { fault.map(|f| f.name()) } else { None };
        if let (true, Some(f)) = (fired, fault) {
            *sh.fired.entry((f.name(), opname(op))).or_insert(0) += 1;
            if f.is_benign() {
                sh.benign_fired += 1;
            } else {
                sh.hard_fired += 1;
            }
        }
        sh.log.push(DiskEv {
            op,
            req,
            res,
            fault: fname,
        });
    }
}

impl Read for SimDisk {
    fn read(&mut self, buf: &mut [u8]) -> io::Result<usize> {
        let fault = self.next_fault(DiskOp::Read);
        let avail = {
            let sh = self.shared.borrow();
            (sh.data.len() as u64).saturating_sub(self.pos) as usize
        };
        let mut n = buf.len().min(avail);
        let mut fired = false;
        match fault {
            Some(Fault::Interrupted) => {
                self.record(DiskOp::Read, buf.len(), Err(ErrorKind::Interrupted), fault, true);
                return Err(io::Error::new(ErrorKind::Interrupted, "sim: interrupted"));
            }
            Some(Fault::Hard(k)) => {
                self.record(DiskOp::Read, buf.len(), Err(k.to_kind()), fault, true);
                return Err(io::Error::new(k.to_kind(), "sim: hard read error"));
            }
            Some(Fault::Zero) => {
                if n > 0 {
                    fired = true;
                }
                n = 0;
            }
            Some(Fault::Short(k)) => {
                let k = k.max(1);
                if n > k {
                    n = k;
                    fired = true;
                }
            }
            _ => {}
        }
        if n > 0 {
            let sh = self.shared.borrow();
            let p = self.pos as usize;
            buf[..n].copy_from_slice(&sh.data[p..p + n]);
        }
        self.pos += n as u64;
        self.record(DiskOp::Read, buf.len(), Ok(n), fault, fired);
        Ok(n)
    }
}

impl Write for SimDisk {
    fn write(&mut self, buf: &[u8]) -> io::Result<usize> {
        let fault = self.next_fault(DiskOp::Write);
        let mut n = buf.len();
        let mut fired = false;
        match fault {
            Some(Fault::Interrupted) => {
                self.record(DiskOp::Write, buf.len(), Err(ErrorKind::Interrupted), fault, true);
                return Err(io::Error::new(ErrorKind::Interrupted, "sim: interrupted"));
            }
            Some(Fault::Hard(k)) => {
                self.record(DiskOp::Write, buf.len(), Err(k.to_kind()), fault, true);
                return Err(io::Error::new(k.to_kind(), "sim: hard write error"));
            }
            Some(Fault::Zero) => {
                if n > 0 {
                    fired = true;
                }
                n = 0;
            }
            Some(Fault::Short(k)) => {
                let k = k.max(1);
                if n > k {
                    n = k;
                    fired = true;
                }
            }
            _ => {}
        }
        if let Some(cap) = self.capacity {
            let room = (cap as u64).saturating_sub(self.pos) as usize;
            if n > room {
                if room == 0 && !buf.is_empty() {
                    // full disk
                    {
                        let mut sh = self.shared.borrow_mut();
                        *sh.fired.entry(("full", "write")).or_insert(0) += 1;
                        sh.hard_fired += 1;
                    }
                    self.record(DiskOp::Write, buf.len(), Err(ErrorKind::Other), None, false);
                    return Err(io::Error::new(ErrorKind::Other, "sim: no space left on device"));
                }
                n = room;
                let mut sh = self.shared.borrow_mut();
                *sh.fired.entry(("full_short", "write")).or_insert(0) += 1;
                sh.benign_fired += 1;
            }
        }
        if n > 0 {
            let mut sh = self.shared.borrow_mut();
            let p = self.pos as usize;
            if sh.data.len() < p + n {
                sh.data.resize(p + n, 0);
            }
            sh.data[p..p + n].copy_from_slice(&buf[..n]);
        }
        self.pos += n as u64;
        self.record(DiskOp::Write, buf.len(), Ok(n), fault, fired);
        Ok(n)
    }

    fn flush(&mut self) -> io::Result<()> {
        let fault = self.next_fault(DiskOp::Flush);
        if let Some(Fault::Hard(k)) = fault {
            self.record(DiskOp::Flush, 0, Err(k.to_kind()), fault, true);
            return Err(io::Error::new(k.to_kind(), "sim: hard flush error"));
        }
        self.record(DiskOp::Flush, 0, Ok(0), fault, false);
        Ok(())
    }
}

impl Seek for SimDisk {
    fn seek(&mut self, pos: SeekFrom) -> io::Result<u64> {
        let fault = self.next_fault(DiskOp::Seek);
        match fault {
            Some(Fault::Hard(k)) => {
                self.record(DiskOp::Seek, 0, Err(k.to_kind()), fault, true);
                return Err(io::Error::new(k.to_kind(), "sim: hard seek error"));
            }
            Some(Fault::SeekErr) => {
                self.record(DiskOp::Seek, 0, Err(ErrorKind::Other), fault, true);
                return Err(io::Error::new(ErrorKind::Other, "sim: seek error"));
            }
            _ => {}
        }
        let len = self.shared.borrow().data.len() as i128;
        let np: i128 = match pos {
            SeekFrom::Start(p) => p as i128,
            SeekFrom::End(d) => len + d as i128,
            SeekFrom::Current(d) => self.pos as i128 + d as i128,
        };
        if np < 0 {
            self.record(DiskOp::Seek, 0, Err(ErrorKind::InvalidInput), None, false);
            return Err(io::Error::new(ErrorKind::InvalidInput, "sim: negative seek"));
        }
        self.pos = np as u64;
        self.record(DiskOp::Seek, 0, Ok(0), None, false);
        Ok(self.pos)
    }
}
