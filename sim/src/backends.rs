//! Word-level backends used under the bit readers/writers.
//!
//! `AnyWordRead<W>` / `AnyWordWrite<W>` are harness glue: one enum per word type
//! that forwards to the REAL backend of /repo (MemWordReader, MemWordWriterVec,
//! MemWordWriterSlice, WordAdapter over SimDisk / BufReader / BufWriter) or to a
//! stub (`RecWordWrite`, `FaultyWordRead`), and counts words moved so that the
//! harness can measure buffer fill without touching the library.

use crate::simdisk::{ErrK, SimDisk};
use dsi_bitstream::prelude::*;
use std::cell::RefCell;
use std::convert::Infallible;
use std::io::{BufReader, BufWriter, Cursor, ErrorKind};
use std::rc::Rc;

// ---------------------------------------------------------------- errors

#[derive(Debug, Clone, PartialEq, Eq)]
pub struct SimErr {
    pub kind: ErrorKind,
    pub msg: String,
}

impl std::fmt::Display for SimErr {
    fn fmt(&self, f: &mut std::fmt::Formatter<'_>) -> std::fmt::Result {
        write!(f, "SimErr({:?}): {}", self.kind, self.msg)
    }
}
impl std::error::Error for SimErr {}
impl From<std::io::Error> for SimErr {
    fn from(e: std::io::Error) -> Self {
        SimErr {
            kind: e.kind(),
            msg: String::new(),
        }
    }
}
impl From<Infallible> for SimErr {
    fn from(e: Infallible) -> Self {
        match e {}
    }
}

// ---------------------------------------------------------------- words

/// Harness-side helper over the five word types.
pub trait SimWord: Word + Copy + std::fmt::Debug + 'static {
    const NBYTES: usize;
    const NBITS: usize;
    fn from_ne(b: &[u8]) -> Self;
    fn to_ne(self) -> Vec<u8>;
    fn as_u128(self) -> u128;
    fn from_u128(x: u128) -> Self;
}

macro_rules! simword {
    ($($t:ty),*) => {$(
        impl SimWord for $t {
            const NBYTES: usize = std::mem::size_of::<$t>();
            const NBITS: usize = 8 * std::mem::size_of::<$t>();
            fn from_ne(b: &[u8]) -> Self { <$t>::from_ne_bytes(b.try_into().unwrap()) }
            fn to_ne(self) -> Vec<u8> { self.to_ne_bytes().to_vec() }
            fn as_u128(self) -> u128 { self as u128 }
            fn from_u128(x: u128) -> Self { x as $t }
        }
    )*};
}
simword!(u8, u16, u32, u64, u128);

/// Canonical bytes -> memory words (native-endian chunks). `bytes.len()` is
/// padded with zeros to a multiple of the word size.
pub fn bytes_to_words<W: SimWord>(bytes: &[u8]) -> Vec<W> {
    let mut b = bytes.to_vec();
    while b.len() % W::NBYTES != 0 {
        b.push(0);
    }
    b.chunks(W::NBYTES).map(W::from_ne).collect()
}

pub fn words_to_bytes<W: SimWord>(words: &[W]) -> Vec<u8> {
    let mut out = Vec::with_capacity(words.len() * W::NBYTES);
    for w in words {
        out.extend_from_slice(&w.to_ne());
    }
    out
}

// ---------------------------------------------------------------- shared vec

/// Borrowed storage for MemWordWriterVec / MemWordWriterSlice whose owner is
/// the harness (a `Box<Vec<W>>` that outlives the writer). Equivalent to
/// `&mut Vec<W>` without the lifetime, so that it fits in an enum.
#[derive(Debug)]
pub struct SharedVec<W>(pub *mut Vec<W>);
impl<W> AsRef<Vec<W>> for SharedVec<W> {
    fn as_ref(&self) -> &Vec<W> {
        unsafe { &*self.0 }
    }
}
impl<W> AsMut<Vec<W>> for SharedVec<W> {
    fn as_mut(&mut self) -> &mut Vec<W> {
        unsafe { &mut *self.0 }
    }
}
impl<W> AsRef<[W]> for SharedVec<W> {
    fn as_ref(&self) -> &[W] {
        unsafe { (&*self.0).as_slice() }
    }
}
impl<W> AsMut<[W]> for SharedVec<W> {
    fn as_mut(&mut self) -> &mut [W] {
        unsafe { (&mut *self.0).as_mut_slice() }
    }
}

// ---------------------------------------------------------------- stubs

/// Stub read backend: array + cursor, fails at/after word `fail_at` with `kind`.
#[derive(Debug, Clone)]
pub struct FaultyWordRead<W> {
    pub data: Rc<Vec<W>>,
    pub pos: usize,
    pub fail_at: usize,
    pub kind: ErrK,
    pub fired: Rc<RefCell<u64>>,
}

impl<W: SimWord> WordRead for FaultyWordRead<W> {
    type Error = SimErr;
    type Word = W;
    fn read_word(&mut self) -> Result<W, SimErr> {
        if self.pos >= self.fail_at || self.pos >= self.data.len() {
            *self.fired.borrow_mut() += 1;
            return Err(SimErr {
                kind: self.kind.to_kind(),
                msg: "faulty word read".into(),
            });
        }
        let w = self.data[self.pos];
        self.pos += 1;
        Ok(w)
    }
}
impl<W: SimWord> WordSeek for FaultyWordRead<W> {
    type Error = SimErr;
    fn word_pos(&mut self) -> Result<u64, SimErr> {
        Ok(self.pos as u64)
    }
    fn set_word_pos(&mut self, p: u64) -> Result<(), SimErr> {
        if p > self.data.len() as u64 {
            return Err(SimErr {
                kind: ErrorKind::UnexpectedEof,
                msg: "seek beyond end".into(),
            });
        }
        self.pos = p as usize;
        Ok(())
    }
}

/// Stub read backend for "scale" scenarios: `head` words, then `zeros` all-zero words that
/// occupy no memory, then `tail` words; strict beyond the end.
#[derive(Debug, Clone)]
pub struct SparseWordRead<W> {
    pub head: Rc<Vec<W>>,
    pub zeros: u64,
    pub tail: Rc<Vec<W>>,
    pub pos: u64,
}

impl<W: SimWord> SparseWordRead<W> {
    pub fn total(&self) -> u64 {
        self.head.len() as u64 + self.zeros + self.tail.len() as u64
    }
}

impl<W: SimWord> WordRead for SparseWordRead<W> {
    type Error = SimErr;
    type Word = W;
    #[inline]
    fn read_word(&mut self) -> Result<W, SimErr> {
        let h = self.head.len() as u64;
        let w = if self.pos < h {
            self.head[self.pos as usize]
        } else if self.pos < h + self.zeros {
            W::from_u128(0)
        } else if self.pos < self.total() {
            self.tail[(self.pos - h - self.zeros) as usize]
        } else {
            return Err(SimErr {
                kind: ErrorKind::UnexpectedEof,
                msg: "end of sparse stream".into(),
            });
        };
        self.pos += 1;
        Ok(w)
    }
}
impl<W: SimWord> WordSeek for SparseWordRead<W> {
    type Error = SimErr;
    fn word_pos(&mut self) -> Result<u64, SimErr> {
        Ok(self.pos)
    }
    fn set_word_pos(&mut self, p: u64) -> Result<(), SimErr> {
        if p > self.total() {
            return Err(SimErr {
                kind: ErrorKind::UnexpectedEof,
                msg: "seek beyond end".into(),
            });
        }
        self.pos = p;
        Ok(())
    }
}

/// Seekable byte source with a run of `zeros` zero bytes between a real head and a
/// real tail (streams of up to 2^62 bytes under the real WordAdapter). No faults.
#[derive(Clone)]
pub struct SparseBytes {
    pub head: Rc<Vec<u8>>,
    pub zeros: u64,
    pub tail: Rc<Vec<u8>>,
    pub pos: u64,
}

impl SparseBytes {
    pub fn total(&self) -> u64 {
        self.head.len() as u64 + self.zeros + self.tail.len() as u64
    }
}

impl std::io::Read for SparseBytes {
    fn read(&mut self, buf: &mut [u8]) -> std::io::Result<usize> {
        let h = self.head.len() as u64;
        let mut n = 0;
        while n < buf.len() && self.pos < self.total() {
            buf[n] = if self.pos < h {
                self.head[self.pos as usize]
            } else if self.pos < h + self.zeros {
                0
            } else {
                self.tail[(self.pos - h - self.zeros) as usize]
            };
            n += 1;
            self.pos += 1;
        }
        Ok(n)
    }
}

impl std::io::Seek for SparseBytes {
    fn seek(&mut self, from: std::io::SeekFrom) -> std::io::Result<u64> {
        let t: i128 = match from {
            std::io::SeekFrom::Start(p) => p as i128,
            std::io::SeekFrom::Current(d) => self.pos as i128 + d as i128,
            std::io::SeekFrom::End(d) => self.total() as i128 + d as i128,
        };
        if t < 0 || t > u64::MAX as i128 {
            return Err(std::io::Error::new(ErrorKind::InvalidInput, "seek out of range"));
        }
        self.pos = t as u64;
        Ok(self.pos)
    }
}

/// What the word sink saw, in order.
#[derive(Debug, Default)]
pub struct WordLog {
    /// sparse mode (scale scenarios): only non-zero words are kept, with their index
    pub sparse: bool,
    pub count: u64,
    pub nonzero: Vec<(u64, u128)>,
    /// every word accepted by the backend, as u128
    pub words: Vec<u128>,
    pub flushes: u64,
    pub write_calls: u64,
    pub refused: u64,
}

// ---------------------------------------------------------------- AnyWordRead

pub enum RdInner<W: SimWord> {
    MemInf(MemWordReader<W, Vec<W>, true>),
    MemStrict(MemWordReader<W, Vec<W>, false>),
    VecBack(MemWordWriterVec<W, Vec<W>>),
    SliceBack(MemWordWriterSlice<W, Vec<W>>),
    Adapter(WordAdapter<W, SimDisk>),
    BufAdapter(WordAdapter<W, BufReader<SimDisk>>),
    /// the real std::io::Cursor (no faults), directly and through std BufReader
    Cursor(WordAdapter<W, Cursor<Vec<u8>>>),
    BufCursor(WordAdapter<W, BufReader<Cursor<Vec<u8>>>>),
    Faulty(FaultyWordRead<W>),
    Sparse(SparseWordRead<W>),
    SparseAdapter(WordAdapter<W, SparseBytes>),
    SparseBufAdapter(WordAdapter<W, BufReader<SparseBytes>>),
}

#[derive(Debug, Default)]
pub struct RdStats {
    pub words_read: u64,
    pub read_errs: u64,
    pub seeks: u64,
}

pub struct AnyWordRead<W: SimWord> {
    pub inner: RdInner<W>,
    /// words successfully delivered since the last successful seek + seek target
    /// (i.e. the backend cursor in words as the harness sees it)
    pub cursor: u64,
    pub stats: Rc<RefCell<RdStats>>,
}

impl<W: SimWord> AnyWordRead<W> {
    pub fn new(inner: RdInner<W>) -> Self {
        AnyWordRead {
            inner,
            cursor: 0,
            stats: Rc::new(RefCell::new(RdStats::default())),
        }
    }
    pub fn can_clone(&self) -> bool {
        matches!(
            self.inner,
            RdInner::MemInf(_) | RdInner::MemStrict(_) | RdInner::Adapter(_) | RdInner::Cursor(_) | RdInner::Faulty(_) | RdInner::Sparse(_) | RdInner::SparseAdapter(_)
        )
    }
}

impl<W: SimWord> Clone for AnyWordRead<W> {
    fn clone(&self) -> Self {
        let inner = match &self.inner {
            RdInner::MemInf(r) => RdInner::MemInf(r.clone()),
            RdInner::MemStrict(r) => RdInner::MemStrict(r.clone()),
            RdInner::Adapter(r) => RdInner::Adapter(r.clone()),
            RdInner::Cursor(r) => RdInner::Cursor(r.clone()),
            RdInner::Faulty(r) => RdInner::Faulty(r.clone()),
            RdInner::Sparse(r) => RdInner::Sparse(r.clone()),
            RdInner::SparseAdapter(r) => RdInner::SparseAdapter(r.clone()),
            _ => panic!("harness error: clone of a non-clonable backend"),
        };
        // the clone gets its own counters (a copy), published through a
        // thread-local so that the harness can follow the copy it continues with
        let st = {
            let s = self.stats.borrow();
            Rc::new(RefCell::new(RdStats {
                words_read: s.words_read,
                read_errs: s.read_errs,
                seeks: s.seeks,
            }))
        };
        LAST_CLONED.with(|l| *l.borrow_mut() = Some(st.clone()));
        AnyWordRead {
            inner,
            cursor: self.cursor,
            stats: st,
        }
    }
}

thread_local! {
    static LAST_CLONED: RefCell<Option<Rc<RefCell<RdStats>>>> = RefCell::new(None);
}

pub fn take_last_cloned_stats() -> Option<Rc<RefCell<RdStats>>> {
    LAST_CLONED.with(|l| l.borrow_mut().take())
}

impl<W: SimWord> WordRead for AnyWordRead<W> {
    type Error = SimErr;
    type Word = W;
    #[inline]
    fn read_word(&mut self) -> Result<W, SimErr> {
        let r: Result<W, SimErr> = match &mut self.inner {
            RdInner::MemInf(r) => r.read_word().map_err(SimErr::from),
            RdInner::MemStrict(r) => r.read_word().map_err(SimErr::from),
            RdInner::VecBack(r) => r.read_word().map_err(SimErr::from),
            RdInner::SliceBack(r) => r.read_word().map_err(SimErr::from),
            RdInner::Adapter(r) => r.read_word().map_err(SimErr::from),
            RdInner::BufAdapter(r) => r.read_word().map_err(SimErr::from),
            RdInner::Cursor(r) => r.read_word().map_err(SimErr::from),
            RdInner::BufCursor(r) => r.read_word().map_err(SimErr::from),
            RdInner::Faulty(r) => r.read_word(),
            RdInner::Sparse(r) => r.read_word(),
            RdInner::SparseAdapter(r) => r.read_word().map_err(SimErr::from),
            RdInner::SparseBufAdapter(r) => r.read_word().map_err(SimErr::from),
        };
        let mut st = self.stats.borrow_mut();
        match &r {
            Ok(_) => {
                self.cursor += 1;
                st.words_read += 1;
            }
            Err(_) => st.read_errs += 1,
        }
        r
    }
}

impl<W: SimWord> WordSeek for AnyWordRead<W> {
    type Error = SimErr;
    fn word_pos(&mut self) -> Result<u64, SimErr> {
        match &mut self.inner {
            RdInner::MemInf(r) => r.word_pos().map_err(SimErr::from),
            RdInner::MemStrict(r) => r.word_pos().map_err(SimErr::from),
            RdInner::VecBack(r) => r.word_pos().map_err(SimErr::from),
            RdInner::SliceBack(r) => r.word_pos().map_err(SimErr::from),
            RdInner::Adapter(r) => r.word_pos().map_err(SimErr::from),
            RdInner::BufAdapter(r) => r.word_pos().map_err(SimErr::from),
            RdInner::Cursor(r) => r.word_pos().map_err(SimErr::from),
            RdInner::BufCursor(r) => r.word_pos().map_err(SimErr::from),
            RdInner::Faulty(r) => r.word_pos(),
            RdInner::Sparse(r) => r.word_pos(),
            RdInner::SparseAdapter(r) => r.word_pos().map_err(SimErr::from),
            RdInner::SparseBufAdapter(r) => r.word_pos().map_err(SimErr::from),
        }
    }
    fn set_word_pos(&mut self, p: u64) -> Result<(), SimErr> {
        let r = match &mut self.inner {
            RdInner::MemInf(r) => r.set_word_pos(p).map_err(SimErr::from),
            RdInner::MemStrict(r) => r.set_word_pos(p).map_err(SimErr::from),
            RdInner::VecBack(r) => r.set_word_pos(p).map_err(SimErr::from),
            RdInner::SliceBack(r) => r.set_word_pos(p).map_err(SimErr::from),
            RdInner::Adapter(r) => r.set_word_pos(p).map_err(SimErr::from),
            RdInner::BufAdapter(r) => r.set_word_pos(p).map_err(SimErr::from),
            RdInner::Cursor(r) => r.set_word_pos(p).map_err(SimErr::from),
            RdInner::BufCursor(r) => r.set_word_pos(p).map_err(SimErr::from),
            RdInner::Faulty(r) => r.set_word_pos(p),
            RdInner::Sparse(r) => r.set_word_pos(p),
            RdInner::SparseAdapter(r) => r.set_word_pos(p).map_err(SimErr::from),
            RdInner::SparseBufAdapter(r) => r.set_word_pos(p).map_err(SimErr::from),
        };
        if r.is_ok() {
            self.cursor = p;
            self.stats.borrow_mut().seeks += 1;
        }
        r
    }
}

// ---------------------------------------------------------------- AnyWordWrite

pub enum WrInner<W: SimWord> {
    Vec(MemWordWriterVec<W, SharedVec<W>>),
    Slice(MemWordWriterSlice<W, SharedVec<W>>),
    Adapter(WordAdapter<W, SimDisk>),
    BufAdapter(WordAdapter<W, BufWriter<SimDisk>>),
    /// recording stub; refuses word number `refuse_at` (0-based) if set
    Rec { refuse_at: Option<u64> },
}

pub struct AnyWordWrite<W: SimWord> {
    pub inner: WrInner<W>,
    pub log: Rc<RefCell<WordLog>>,
}

impl<W: SimWord> AnyWordWrite<W> {
    pub fn new(inner: WrInner<W>) -> Self {
        AnyWordWrite {
            inner,
            log: Rc::new(RefCell::new(WordLog::default())),
        }
    }
}

impl<W: SimWord> WordWrite for AnyWordWrite<W> {
    type Error = SimErr;
    type Word = W;
    #[inline]
    fn write_word(&mut self, word: W) -> Result<(), SimErr> {
        self.log.borrow_mut().write_calls += 1;
        let r: Result<(), SimErr> = match &mut self.inner {
            WrInner::Vec(w) => w.write_word(word).map_err(SimErr::from),
            WrInner::Slice(w) => w.write_word(word).map_err(SimErr::from),
            WrInner::Adapter(w) => w.write_word(word).map_err(SimErr::from),
            WrInner::BufAdapter(w) => w.write_word(word).map_err(SimErr::from),
            WrInner::Rec { refuse_at } => {
                let n = {
                    let l = self.log.borrow();
                    if l.sparse {
                        l.count
                    } else {
                        l.words.len() as u64
                    }
                };
                if *refuse_at == Some(n) {
                    Err(SimErr {
                        kind: ErrorKind::Other,
                        msg: "recording backend refuses this word".into(),
                    })
                } else {
                    Ok(())
                }
            }
        };
        let mut log = self.log.borrow_mut();
        match &r {
            Ok(()) => {
                if log.sparse {
                    let x = word.as_u128();
                    if x != 0 && log.nonzero.len() < 100_000 {
                        let c = log.count;
                        log.nonzero.push((c, x));
                    }
                    log.count += 1;
                } else {
                    log.words.push(word.as_u128());
                }
            }
            Err(_) => log.refused += 1,
        }
        r
    }
    fn flush(&mut self) -> Result<(), SimErr> {
        self.log.borrow_mut().flushes += 1;
        match &mut self.inner {
            WrInner::Vec(w) => w.flush().map_err(SimErr::from),
            WrInner::Slice(w) => w.flush().map_err(SimErr::from),
            WrInner::Adapter(w) => w.flush().map_err(SimErr::from),
            WrInner::BufAdapter(w) => w.flush().map_err(SimErr::from),
            WrInner::Rec { .. } => Ok(()),
        }
    }
}
