//! Bit-level readers/writers of /repo, instantiated once per (endianness, word)
//! and wrapped in enums so that scenarios can pick the configuration at run
//! time. Everything below the enum match is REAL library code.

use crate::backends::*;
use crate::model::En;
use crate::simdisk::{DiskShared, ErrK, FaultPlan, SimDisk};
use common_traits::CastableInto;
use dsi_bitstream::prelude::*;
use serde::{Deserialize, Serialize};
use std::any::Any;
use std::cell::RefCell;
use std::io::{BufReader, BufWriter, Cursor};
use std::rc::Rc;

// ------------------------------------------------------------------ codes

#[derive(Clone, Copy, Debug, PartialEq, Eq, Serialize, Deserialize, Hash)]
pub enum Code {
    Unary,
    Gamma,
    Delta,
    Omega,
    Zeta(usize),
    Pi(usize),
    Golomb(u64),
    Rice(usize),
    ExpGolomb(usize),
    MinBin(u64),
    VByteBe,
    VByteLe,
}

impl Code {
    pub fn name(&self) -> &'static str {
        match self {
            Code::Unary => "unary",
            Code::Gamma => "gamma",
            Code::Delta => "delta",
            Code::Omega => "omega",
            Code::Zeta(3) => "zeta3",
            Code::Zeta(_) => "zeta",
            Code::Pi(_) => "pi",
            Code::Golomb(_) => "golomb",
            Code::Rice(_) => "rice",
            Code::ExpGolomb(_) => "expgolomb",
            Code::MinBin(_) => "minbin",
            Code::VByteBe => "vbytebe",
            Code::VByteLe => "vbytele",
        }
    }
    /// Number of distinct read-side method variants for this code.
    pub fn n_rtabs(&self) -> u8 {
        match self {
            Code::Gamma => 3,    // param<false>, param<true>, default
            Code::Delta => 5,    // param<d,g> x4, default
            Code::Zeta(3) => 5,  // zeta3_param<false>, <true>, default zeta3(), read_zeta(3), read_zeta_param(3)
            Code::Zeta(_) => 2,  // read_zeta_param(k), default read_zeta(k)
            _ => 1,
        }
    }
    pub fn n_wtabs(&self) -> u8 {
        match self {
            Code::Gamma => 3,
            Code::Delta => 5,
            Code::Zeta(3) => 5,
            Code::Zeta(_) => 3, // write_zeta_param<false>, <true>, default write_zeta
            _ => 1,
        }
    }
    /// Which decoding table (if any) a read with variant `tab` consults first.
    /// Returns the list of table names in consultation order.
    pub fn rtables(&self, tab: u8) -> Vec<&'static str> {
        let tab = tab % self.n_rtabs();
        match (self, tab) {
            (Code::Gamma, 1) => vec!["gamma"],
            (Code::Gamma, _) => vec![],
            (Code::Delta, 0) => vec![],
            (Code::Delta, 1) => vec!["gamma"],
            (Code::Delta, 2) => vec!["delta"],
            (Code::Delta, 3) => vec!["delta", "gamma"],
            (Code::Delta, 4) => vec!["gamma"], // default: read_delta_param::<false, true>
            (Code::Zeta(3), 1) | (Code::Zeta(3), 2) => vec!["zeta3"],
            // ExpGolomb goes through the parameterless read_gamma (no table by default)
            _ => vec![],
        }
    }
    /// Largest value accepted by the code (documented domain).
    pub fn max_value(&self) -> u64 {
        match self {
            Code::VByteBe | Code::VByteLe => u64::MAX,
            Code::MinBin(u) => u - 1,
            _ => u64::MAX - 1,
        }
    }
}

pub const READ_BITS_GAMMA: usize = 9;
pub const READ_BITS_DELTA: usize = 11;
pub const READ_BITS_ZETA3: usize = 12;

pub fn table_read_bits(t: &str) -> usize {
    match t {
        "gamma" => dsi_bitstream::codes::gamma_tables::READ_BITS,
        "delta" => dsi_bitstream::codes::delta_tables::READ_BITS,
        "zeta3" => dsi_bitstream::codes::zeta_tables::READ_BITS,
        _ => 0,
    }
}

// ------------------------------------------------------------------ specs

#[derive(Clone, Copy, Debug, PartialEq, Eq, Serialize, Deserialize, Hash, PartialOrd, Ord)]
pub enum Wd {
    U8,
    U16,
    U32,
    U64,
    U128,
}
impl Wd {
    pub const ALL: [Wd; 5] = [Wd::U8, Wd::U16, Wd::U32, Wd::U64, Wd::U128];
    pub fn bits(self) -> usize {
        match self {
            Wd::U8 => 8,
            Wd::U16 => 16,
            Wd::U32 => 32,
            Wd::U64 => 64,
            Wd::U128 => 128,
        }
    }
    pub fn bytes(self) -> usize {
        self.bits() / 8
    }
}

#[derive(Clone, Copy, Debug, PartialEq, Eq, Serialize, Deserialize, Hash, PartialOrd, Ord)]
pub enum RdKind {
    B8,
    B16,
    B32,
    B64,
    /// unbuffered BitReader over u64 words
    U64,
}
impl RdKind {
    pub const ALL: [RdKind; 5] = [RdKind::B8, RdKind::B16, RdKind::B32, RdKind::B64, RdKind::U64];
    pub fn word_bits(self) -> usize {
        match self {
            RdKind::B8 => 8,
            RdKind::B16 => 16,
            RdKind::B32 => 32,
            RdKind::B64 | RdKind::U64 => 64,
        }
    }
    pub fn buffered(self) -> bool {
        !matches!(self, RdKind::U64)
    }
    /// Largest n accepted by peek_bits according to the property text (C02).
    pub fn max_peek(self) -> usize {
        match self {
            RdKind::U64 => 32,
            k => k.word_bits(),
        }
    }
    /// Number of peekable bits the reader announces to check_tables at
    /// construction.
    pub fn announced_peek(self) -> usize {
        match self {
            RdKind::U64 => 32,
            k => k.word_bits() + 1,
        }
    }
}

#[derive(Clone, Debug, PartialEq, Eq, Serialize, Deserialize)]
pub enum RdBackend {
    MemInf,
    MemStrict,
    VecBack,
    SliceBack,
    Adapter { plan: FaultPlan },
    BufAdapter { cap: usize, plan: FaultPlan },
    /// std::io::Cursor<Vec<u8>> under the adapter; cap = Some(n): through std BufReader
    StdCursor { cap: Option<usize> },
    Faulty { fail_at: usize, kind: ErrK },
    /// scale scenarios: the first `head_words` words of the image, then `zero_words`
    /// all-zero words (no memory), then the rest of the image; strict
    Sparse { head_words: usize, zero_words: u64 },
    /// the real WordAdapter (directly or through std BufReader) over a sparse byte source
    SparseAdapter { head_words: usize, zero_words: u64, buf: Option<usize> },
}
impl RdBackend {
    pub fn name(&self) -> &'static str {
        match self {
            RdBackend::MemInf => "meminf",
            RdBackend::MemStrict => "memstrict",
            RdBackend::VecBack => "vecback",
            RdBackend::SliceBack => "sliceback",
            RdBackend::Adapter { .. } => "adapter",
            RdBackend::BufAdapter { .. } => "bufadapter",
            RdBackend::StdCursor { cap: None } => "cursor",
            RdBackend::StdCursor { cap: Some(_) } => "bufcursor",
            RdBackend::Faulty { .. } => "faulty",
            RdBackend::Sparse { .. } => "sparse",
            RdBackend::SparseAdapter { buf: None, .. } => "sparse-adapter",
            RdBackend::SparseAdapter { .. } => "sparse-bufadapter",
        }
    }
    pub fn zero_extended(&self) -> bool {
        matches!(self, RdBackend::MemInf)
    }
    pub fn can_clone(&self) -> bool {
        matches!(
            self,
            RdBackend::MemInf | RdBackend::MemStrict | RdBackend::Adapter { .. } | RdBackend::StdCursor { cap: None } | RdBackend::Faulty { .. }
        )
    }
    pub fn plan(&self) -> Option<&FaultPlan> {
        match self {
            RdBackend::Adapter { plan } | RdBackend::BufAdapter { plan, .. } => Some(plan),
            _ => None,
        }
    }
    pub fn plan_mut(&mut self) -> Option<&mut FaultPlan> {
        match self {
            RdBackend::Adapter { plan } | RdBackend::BufAdapter { plan, .. } => Some(plan),
            _ => None,
        }
    }
}

#[derive(Clone, Debug, PartialEq, Eq, Serialize, Deserialize)]
pub enum WrBackend {
    Vec,
    Slice { cap_words: usize },
    Adapter { plan: FaultPlan },
    BufAdapter { cap: usize, plan: FaultPlan },
    Rec { refuse_at: Option<u64> },
    /// scale scenarios: recording stub that keeps only the non-zero words and a count
    SparseRec,
}
impl WrBackend {
    pub fn name(&self) -> &'static str {
        match self {
            WrBackend::Vec => "vec",
            WrBackend::Slice { .. } => "slice",
            WrBackend::Adapter { .. } => "adapter",
            WrBackend::BufAdapter { .. } => "bufadapter",
            WrBackend::Rec { .. } => "rec",
            WrBackend::SparseRec => "sparserec",
        }
    }
}

// ------------------------------------------------------------------ readers

type BR<E, W> = BufBitReader<E, AnyWordRead<W>>;
type UR<E> = BitReader<E, AnyWordRead<u64>>;

pub enum AnyReader {
    Be8(BR<BE, u8>),
    Be16(BR<BE, u16>),
    Be32(BR<BE, u32>),
    Be64(BR<BE, u64>),
    BeU(UR<BE>),
    Le8(BR<LE, u8>),
    Le16(BR<LE, u16>),
    Le32(BR<LE, u32>),
    Le64(BR<LE, u64>),
    LeU(UR<LE>),
}

macro_rules! with_r {
    ($s:expr, $r:ident => $body:expr) => {
        match $s {
            AnyReader::Be8($r) => $body,
            AnyReader::Be16($r) => $body,
            AnyReader::Be32($r) => $body,
            AnyReader::Be64($r) => $body,
            AnyReader::BeU($r) => $body,
            AnyReader::Le8($r) => $body,
            AnyReader::Le16($r) => $body,
            AnyReader::Le32($r) => $body,
            AnyReader::Le64($r) => $body,
            AnyReader::LeU($r) => $body,
        }
    };
}

/// Handles the harness keeps to look underneath a reader.
pub struct RdHandles {
    pub stats: Rc<RefCell<RdStats>>,
    pub disk: Option<Rc<RefCell<DiskShared>>>,
    pub faulty_fired: Option<Rc<RefCell<u64>>>,
    pub word_bits: usize,
    /// number of whole words the backend holds
    pub n_words: usize,
    /// word at which the backend was positioned when the reader was built over it
    pub start_words: usize,
}

thread_local! {
    /// Word position the next backend built by `mk_rd_backend` is moved to (with its own
    /// `set_word_pos`) before a reader is created over it; consumed by that call.
    static PRESEEK_WORDS: std::cell::Cell<usize> = const { std::cell::Cell::new(0) };
}

/// Build readers inside `f` over backends that are already positioned at word `k`.
pub fn with_preseek<T>(k: usize, f: impl FnOnce() -> T) -> T {
    PRESEEK_WORDS.with(|c| c.set(k));
    let r = f();
    PRESEEK_WORDS.with(|c| c.set(0));
    r
}

fn mk_rd_backend<W: SimWord>(spec: &RdBackend, bytes: &[u8]) -> (AnyWordRead<W>, RdHandles) {
    let words: Vec<W> = bytes_to_words::<W>(bytes);
    let n_words = words.len();
    let mut disk = None;
    let mut faulty_fired = None;
    let mut start_words = 0usize;
    let inner = match spec {
        RdBackend::MemInf => RdInner::MemInf(MemWordReader::new(words)),
        RdBackend::MemStrict => RdInner::MemStrict(MemWordReader::new_strict(words)),
        RdBackend::VecBack => RdInner::VecBack(MemWordWriterVec::new(words)),
        RdBackend::SliceBack => RdInner::SliceBack(MemWordWriterSlice::new(words)),
        RdBackend::Adapter { plan } => {
            let mut bytes = words_to_bytes(&words);
            bytes.extend(std::iter::repeat(0xFFu8).take(plan.trailing.min(W::NBYTES.saturating_sub(1))));
            let mut d = SimDisk::new(bytes, plan);
            start_words = plan.start_words.min(n_words);
            d.pre_position((start_words * W::NBYTES) as u64);
            disk = Some(d.handle());
            RdInner::Adapter(WordAdapter::new(d))
        }
        RdBackend::BufAdapter { cap, plan } => {
            let mut bytes = words_to_bytes(&words);
            bytes.extend(std::iter::repeat(0xFFu8).take(plan.trailing.min(W::NBYTES.saturating_sub(1))));
            let mut d = SimDisk::new(bytes, plan);
            start_words = plan.start_words.min(n_words);
            d.pre_position((start_words * W::NBYTES) as u64);
            disk = Some(d.handle());
            RdInner::BufAdapter(WordAdapter::new(BufReader::with_capacity((*cap).max(1), d)))
        }
        RdBackend::StdCursor { cap: None } => RdInner::Cursor(WordAdapter::new(Cursor::new(words_to_bytes(&words)))),
        RdBackend::StdCursor { cap: Some(c) } => {
            RdInner::BufCursor(WordAdapter::new(BufReader::with_capacity((*c).max(1), Cursor::new(words_to_bytes(&words)))))
        }
        RdBackend::Sparse { head_words, zero_words } => {
            let h = (*head_words).min(words.len());
            RdInner::Sparse(SparseWordRead {
                head: Rc::new(words[..h].to_vec()),
                zeros: *zero_words,
                tail: Rc::new(words[h..].to_vec()),
                pos: 0,
            })
        }
        RdBackend::SparseAdapter { head_words, zero_words, buf } => {
            let h = (*head_words).min(words.len());
            let d = SparseBytes {
                head: Rc::new(words_to_bytes(&words[..h])),
                zeros: *zero_words * W::NBYTES as u64,
                tail: Rc::new(words_to_bytes(&words[h..])),
                pos: 0,
            };
            match buf {
                None => RdInner::SparseAdapter(WordAdapter::new(d)),
                Some(c) => RdInner::SparseBufAdapter(WordAdapter::new(BufReader::with_capacity((*c).max(1), d))),
            }
        }
        RdBackend::Faulty { fail_at, kind } => {
            let fired = Rc::new(RefCell::new(0));
            faulty_fired = Some(fired.clone());
            RdInner::Faulty(FaultyWordRead {
                data: Rc::new(words),
                pos: 0,
                fail_at: *fail_at,
                kind: *kind,
                fired,
            })
        }
    };
    let mut b = AnyWordRead::new(inner);
    b.cursor = start_words as u64;
    let pre = PRESEEK_WORDS.with(|c| c.replace(0)).min(n_words);
    if pre > 0 && start_words == 0 && b.set_word_pos(pre as u64).is_ok() {
        start_words = pre;
    }
    let h = RdHandles {
        stats: b.stats.clone(),
        disk,
        faulty_fired,
        word_bits: W::NBITS,
        n_words,
        start_words,
    };
    (b, h)
}

impl AnyReader {
    pub fn new(e: En, kind: RdKind, spec: &RdBackend, bytes: &[u8]) -> (AnyReader, RdHandles) {
        macro_rules! mk {
            ($var:ident, $E:ty, $W:ty) => {{
                let (b, h) = mk_rd_backend::<$W>(spec, bytes);
                (AnyReader::$var(BufBitReader::<$E, _>::new(b)), h)
            }};
        }
        macro_rules! mku {
            ($var:ident, $E:ty) => {{
                let (b, h) = mk_rd_backend::<u64>(spec, bytes);
                (AnyReader::$var(BitReader::<$E, _>::new(b)), h)
            }};
        }
        match (e, kind) {
            (En::BE, RdKind::B8) => mk!(Be8, BE, u8),
            (En::BE, RdKind::B16) => mk!(Be16, BE, u16),
            (En::BE, RdKind::B32) => mk!(Be32, BE, u32),
            (En::BE, RdKind::B64) => mk!(Be64, BE, u64),
            (En::BE, RdKind::U64) => mku!(BeU, BE),
            (En::LE, RdKind::B8) => mk!(Le8, LE, u8),
            (En::LE, RdKind::B16) => mk!(Le16, LE, u16),
            (En::LE, RdKind::B32) => mk!(Le32, LE, u32),
            (En::LE, RdKind::B64) => mk!(Le64, LE, u64),
            (En::LE, RdKind::U64) => mku!(LeU, LE),
        }
    }

    pub fn en(&self) -> En {
        match self {
            AnyReader::Be8(_) | AnyReader::Be16(_) | AnyReader::Be32(_) | AnyReader::Be64(_) | AnyReader::BeU(_) => {
                En::BE
            }
            _ => En::LE,
        }
    }

    pub fn read_bits(&mut self, n: usize) -> Result<u64, SimErr> {
        with_r!(self, r => r.read_bits(n))
    }
    pub fn peek_bits(&mut self, n: usize) -> Result<u64, SimErr> {
        with_r!(self, r => r.peek_bits(n).map(|x| { let y: u64 = x.cast(); y }))
    }
    pub fn skip_bits(&mut self, n: usize) -> Result<(), SimErr> {
        with_r!(self, r => r.skip_bits(n))
    }
    pub fn read_unary(&mut self) -> Result<u64, SimErr> {
        with_r!(self, r => r.read_unary())
    }
    pub fn bit_pos(&mut self) -> Result<u64, SimErr> {
        with_r!(self, r => r.bit_pos().map_err(SimErr::from))
    }
    pub fn set_bit_pos(&mut self, p: u64) -> Result<(), SimErr> {
        with_r!(self, r => r.set_bit_pos(p).map_err(SimErr::from))
    }
    pub fn io_read(&mut self, buf: &mut [u8]) -> std::io::Result<usize> {
        with_r!(self, r => std::io::Read::read(r, buf))
    }
    pub fn try_clone(&self) -> AnyReader {
        match self {
            AnyReader::Be8(r) => AnyReader::Be8(r.clone()),
            AnyReader::Be16(r) => AnyReader::Be16(r.clone()),
            AnyReader::Be32(r) => AnyReader::Be32(r.clone()),
            AnyReader::Be64(r) => AnyReader::Be64(r.clone()),
            AnyReader::BeU(r) => AnyReader::BeU(r.clone()),
            AnyReader::Le8(r) => AnyReader::Le8(r.clone()),
            AnyReader::Le16(r) => AnyReader::Le16(r.clone()),
            AnyReader::Le32(r) => AnyReader::Le32(r.clone()),
            AnyReader::Le64(r) => AnyReader::Le64(r.clone()),
            AnyReader::LeU(r) => AnyReader::LeU(r.clone()),
        }
    }

    /// Read `code` through the method variant selected by `tab`.
    pub fn read_code(&mut self, code: Code, tab: u8) -> Result<u64, SimErr> {
        with_r!(self, r => read_code_on(r, code, tab))
    }

    /// The trait's default `copy_to`, reached through a pass-through reader.
    pub fn copy_to_default(&mut self, w: &mut AnyWriter, n: u64) -> Result<(), String> {
        macro_rules! cp {
            ($E:ty, $r:ident, $($wv:ident),*) => {
                match w {
                    $(AnyWriter::$wv(ww) => BitRead::<$E>::copy_to(&mut PassR($r), ww, n).map_err(|e| format!("{}", e)),)*
                    _ => panic!("harness error: endianness mismatch in copy_to"),
                }
            };
        }
        match self {
            AnyReader::Be8(r) => cp!(BE, r, Be8, Be16, Be32, Be64, Be128),
            AnyReader::Be16(r) => cp!(BE, r, Be8, Be16, Be32, Be64, Be128),
            AnyReader::Be32(r) => cp!(BE, r, Be8, Be16, Be32, Be64, Be128),
            AnyReader::Be64(r) => cp!(BE, r, Be8, Be16, Be32, Be64, Be128),
            AnyReader::BeU(r) => cp!(BE, r, Be8, Be16, Be32, Be64, Be128),
            AnyReader::Le8(r) => cp!(LE, r, Le8, Le16, Le32, Le64, Le128),
            AnyReader::Le16(r) => cp!(LE, r, Le8, Le16, Le32, Le64, Le128),
            AnyReader::Le32(r) => cp!(LE, r, Le8, Le16, Le32, Le64, Le128),
            AnyReader::Le64(r) => cp!(LE, r, Le8, Le16, Le32, Le64, Le128),
            AnyReader::LeU(r) => cp!(LE, r, Le8, Le16, Le32, Le64, Le128),
        }
    }

    /// copy_to a writer of the same endianness (panics on mismatch: harness bug).
    pub fn copy_to(&mut self, w: &mut AnyWriter, n: u64) -> Result<(), String> {
        macro_rules! cp {
            ($r:ident, $($wv:ident),*) => {
                match w {
                    $(AnyWriter::$wv(ww) => $r.copy_to(ww, n).map_err(|e| format!("{}", e)),)*
                    _ => panic!("harness error: endianness mismatch in copy_to"),
                }
            };
        }
        match self {
            AnyReader::Be8(r) => cp!(r, Be8, Be16, Be32, Be64, Be128),
            AnyReader::Be16(r) => cp!(r, Be8, Be16, Be32, Be64, Be128),
            AnyReader::Be32(r) => cp!(r, Be8, Be16, Be32, Be64, Be128),
            AnyReader::Be64(r) => cp!(r, Be8, Be16, Be32, Be64, Be128),
            AnyReader::BeU(r) => cp!(r, Be8, Be16, Be32, Be64, Be128),
            AnyReader::Le8(r) => cp!(r, Le8, Le16, Le32, Le64, Le128),
            AnyReader::Le16(r) => cp!(r, Le8, Le16, Le32, Le64, Le128),
            AnyReader::Le32(r) => cp!(r, Le8, Le16, Le32, Le64, Le128),
            AnyReader::Le64(r) => cp!(r, Le8, Le16, Le32, Le64, Le128),
            AnyReader::LeU(r) => cp!(r, Le8, Le16, Le32, Le64, Le128),
        }
    }
}

/// Pass-through wrappers standing for user-defined readers / writers: they forward the
/// required methods and inherit the traits' DEFAULT `copy_to` / `copy_from`.
pub struct PassR<'a, T>(pub &'a mut T);
pub struct PassW<'a, T>(pub &'a mut T);

impl<E: Endianness, T: BitRead<E>> BitRead<E> for PassR<'_, T> {
    type Error = T::Error;
    type PeekWord = T::PeekWord;
    fn read_bits(&mut self, n: usize) -> Result<u64, Self::Error> {
        self.0.read_bits(n)
    }
    fn peek_bits(&mut self, n: usize) -> Result<Self::PeekWord, Self::Error> {
        self.0.peek_bits(n)
    }
    fn skip_bits(&mut self, n: usize) -> Result<(), Self::Error> {
        self.0.skip_bits(n)
    }
    fn skip_bits_after_peek(&mut self, n: usize) {
        self.0.skip_bits_after_peek(n)
    }
    fn read_unary(&mut self) -> Result<u64, Self::Error> {
        self.0.read_unary()
    }
}

impl<E: Endianness, T: BitWrite<E>> BitWrite<E> for PassW<'_, T> {
    type Error = T::Error;
    fn write_bits(&mut self, value: u64, n: usize) -> Result<usize, Self::Error> {
        self.0.write_bits(value, n)
    }
    fn write_unary(&mut self, value: u64) -> Result<usize, Self::Error> {
        self.0.write_unary(value)
    }
    fn flush(&mut self) -> Result<usize, Self::Error> {
        self.0.flush()
    }
}

/// Generic over any reader type implementing the library's code traits.
pub fn read_code_on<E: Endianness, R: CodesRead<E>>(r: &mut R, code: Code, tab: u8) -> Result<u64, R::Error>
where
    R: GammaReadParam<E> + DeltaReadParam<E> + ZetaReadParam<E>,
{
    let tab = tab % code.n_rtabs();
    match code {
        Code::Unary => r.read_unary(),
        Code::Gamma => match tab {
            0 => r.read_gamma_param::<false>(),
            1 => r.read_gamma_param::<true>(),
            _ => r.read_gamma(),
        },
        Code::Delta => match tab {
            0 => r.read_delta_param::<false, false>(),
            1 => r.read_delta_param::<false, true>(),
            2 => r.read_delta_param::<true, false>(),
            3 => r.read_delta_param::<true, true>(),
            _ => r.read_delta(),
        },
        Code::Omega => r.read_omega(),
        Code::Zeta(3) => match tab {
            0 => r.read_zeta3_param::<false>(),
            1 => r.read_zeta3_param::<true>(),
            2 => r.read_zeta3(),
            3 => r.read_zeta(3),
            _ => r.read_zeta_param(3),
        },
        Code::Zeta(k) => match tab {
            0 => r.read_zeta_param(k),
            _ => r.read_zeta(k),
        },
        Code::Pi(k) => r.read_pi(k),
        Code::Golomb(b) => r.read_golomb(b),
        Code::Rice(k) => r.read_rice(k),
        Code::ExpGolomb(k) => r.read_exp_golomb(k),
        Code::MinBin(u) => r.read_minimal_binary(u),
        Code::VByteBe => r.read_vbyte_be(),
        Code::VByteLe => r.read_vbyte_le(),
    }
}

pub fn write_code_on<E: Endianness, W: CodesWrite<E>>(w: &mut W, code: Code, tab: u8, v: u64) -> Result<usize, W::Error>
where
    W: GammaWriteParam<E> + DeltaWriteParam<E> + ZetaWriteParam<E>,
{
    let tab = tab % code.n_wtabs();
    match code {
        Code::Unary => w.write_unary(v),
        Code::Gamma => match tab {
            0 => w.write_gamma_param::<false>(v),
            1 => w.write_gamma_param::<true>(v),
            _ => w.write_gamma(v),
        },
        Code::Delta => match tab {
            0 => w.write_delta_param::<false, false>(v),
            1 => w.write_delta_param::<false, true>(v),
            2 => w.write_delta_param::<true, false>(v),
            3 => w.write_delta_param::<true, true>(v),
            _ => w.write_delta(v),
        },
        Code::Omega => w.write_omega(v),
        Code::Zeta(3) => match tab {
            0 => w.write_zeta3_param::<false>(v),
            1 => w.write_zeta3_param::<true>(v),
            2 => w.write_zeta3(v),
            3 => w.write_zeta(v, 3),
            _ => w.write_zeta_param::<true>(v, 3),
        },
        Code::Zeta(k) => match tab {
            0 => w.write_zeta_param::<false>(v, k),
            1 => w.write_zeta_param::<true>(v, k),
            _ => w.write_zeta(v, k),
        },
        Code::Pi(k) => w.write_pi(v, k),
        Code::Golomb(b) => w.write_golomb(v, b),
        Code::Rice(k) => w.write_rice(v, k),
        Code::ExpGolomb(k) => w.write_exp_golomb(v, k),
        Code::MinBin(u) => w.write_minimal_binary(v, u),
        Code::VByteBe => w.write_vbyte_be(v),
        Code::VByteLe => w.write_vbyte_le(v),
    }
}

// ------------------------------------------------------------------ writers

type BW<E, W> = BufBitWriter<E, AnyWordWrite<W>>;

pub enum AnyWriter {
    Be8(BW<BE, u8>),
    Be16(BW<BE, u16>),
    Be32(BW<BE, u32>),
    Be64(BW<BE, u64>),
    Be128(BW<BE, u128>),
    Le8(BW<LE, u8>),
    Le16(BW<LE, u16>),
    Le32(BW<LE, u32>),
    Le64(BW<LE, u64>),
    Le128(BW<LE, u128>),
}

macro_rules! with_w {
    ($s:expr, $w:ident => $body:expr) => {
        match $s {
            AnyWriter::Be8($w) => $body,
            AnyWriter::Be16($w) => $body,
            AnyWriter::Be32($w) => $body,
            AnyWriter::Be64($w) => $body,
            AnyWriter::Be128($w) => $body,
            AnyWriter::Le8($w) => $body,
            AnyWriter::Le16($w) => $body,
            AnyWriter::Le32($w) => $body,
            AnyWriter::Le64($w) => $body,
            AnyWriter::Le128($w) => $body,
        }
    };
}

pub struct WrHandles {
    pub log: Rc<RefCell<WordLog>>,
    pub disk: Option<Rc<RefCell<DiskShared>>>,
    /// reads the current content of the vec/slice storage as bytes
    pub store_bytes: Option<Box<dyn Fn() -> Vec<u8>>>,
    _keep: Option<Box<dyn Any>>,
    pub word: Wd,
}

impl WrHandles {
    /// Bytes of all words the sink accepted so far, in order.
    pub fn delivered_bytes(&self) -> Vec<u8> {
        let log = self.log.borrow();
        let nb = self.word.bytes();
        let mut out = Vec::with_capacity(log.words.len() * nb);
        for w in &log.words {
            out.extend_from_slice(&w.to_ne_bytes()[..nb]);
        }
        out
    }
    pub fn delivered_words(&self) -> usize {
        self.log.borrow().words.len()
    }
}

pub const SLICE_FILL: u8 = 0xA5;

fn mk_wr_backend<W: SimWord>(spec: &WrBackend, word: Wd) -> (AnyWordWrite<W>, WrHandles) {
    let mut disk = None;
    let mut store_bytes: Option<Box<dyn Fn() -> Vec<u8>>> = None;
    let mut keep: Option<Box<dyn Any>> = None;
    let inner = match spec {
        WrBackend::Vec => {
            let mut b: Box<Vec<W>> = Box::new(Vec::new());
            let p: *mut Vec<W> = &mut *b;
            store_bytes = Some(Box::new(move || words_to_bytes::<W>(unsafe { &*p })));
            keep = Some(b);
            WrInner::Vec(MemWordWriterVec::new(SharedVec(p)))
        }
        WrBackend::Slice { cap_words } => {
            let fill = W::from_ne(&vec![SLICE_FILL; W::NBYTES]);
            let mut b: Box<Vec<W>> = Box::new(vec![fill; *cap_words]);
            let p: *mut Vec<W> = &mut *b;
            store_bytes = Some(Box::new(move || words_to_bytes::<W>(unsafe { &*p })));
            keep = Some(b);
            WrInner::Slice(MemWordWriterSlice::new(SharedVec(p)))
        }
        WrBackend::Adapter { plan } => {
            let d = SimDisk::new(Vec::new(), plan);
            disk = Some(d.handle());
            WrInner::Adapter(WordAdapter::new(d))
        }
        WrBackend::BufAdapter { cap, plan } => {
            let d = SimDisk::new(Vec::new(), plan);
            disk = Some(d.handle());
            WrInner::BufAdapter(WordAdapter::new(BufWriter::with_capacity((*cap).max(1), d)))
        }
        WrBackend::Rec { refuse_at } => WrInner::Rec { refuse_at: *refuse_at },
        WrBackend::SparseRec => WrInner::Rec { refuse_at: None },
    };
    let b = AnyWordWrite::new(inner);
    if matches!(spec, WrBackend::SparseRec) {
        b.log.borrow_mut().sparse = true;
    }
    let h = WrHandles {
        log: b.log.clone(),
        disk,
        store_bytes,
        _keep: keep,
        word,
    };
    (b, h)
}

#[derive(Clone, Copy, Debug, PartialEq, Eq, Serialize, Deserialize, Hash)]
pub enum Close {
    Drop,
    IntoInner,
    FlushFlushDrop,
    FlushIntoInner,
}

impl AnyWriter {
    pub fn new(e: En, word: Wd, spec: &WrBackend) -> (AnyWriter, WrHandles) {
        macro_rules! mk {
            ($var:ident, $E:ty, $W:ty) => {{
                let (b, h) = mk_wr_backend::<$W>(spec, word);
                (AnyWriter::$var(BufBitWriter::<$E, _>::new(b)), h)
            }};
        }
        match (e, word) {
            (En::BE, Wd::U8) => mk!(Be8, BE, u8),
            (En::BE, Wd::U16) => mk!(Be16, BE, u16),
            (En::BE, Wd::U32) => mk!(Be32, BE, u32),
            (En::BE, Wd::U64) => mk!(Be64, BE, u64),
            (En::BE, Wd::U128) => mk!(Be128, BE, u128),
            (En::LE, Wd::U8) => mk!(Le8, LE, u8),
            (En::LE, Wd::U16) => mk!(Le16, LE, u16),
            (En::LE, Wd::U32) => mk!(Le32, LE, u32),
            (En::LE, Wd::U64) => mk!(Le64, LE, u64),
            (En::LE, Wd::U128) => mk!(Le128, LE, u128),
        }
    }

    pub fn write_bits(&mut self, v: u64, n: usize) -> Result<usize, SimErr> {
        with_w!(self, w => w.write_bits(v, n))
    }
    pub fn write_unary(&mut self, x: u64) -> Result<usize, SimErr> {
        with_w!(self, w => w.write_unary(x))
    }
    pub fn flush(&mut self) -> Result<usize, SimErr> {
        with_w!(self, w => BitWrite::flush(w))
    }
    pub fn io_write(&mut self, data: &[u8]) -> std::io::Result<usize> {
        with_w!(self, w => std::io::Write::write(w, data))
    }
    pub fn io_write_all(&mut self, data: &[u8]) -> std::io::Result<()> {
        with_w!(self, w => std::io::Write::write_all(w, data))
    }
    pub fn io_flush(&mut self) -> std::io::Result<()> {
        with_w!(self, w => std::io::Write::flush(w))
    }
    pub fn write_code(&mut self, code: Code, tab: u8, v: u64) -> Result<usize, SimErr> {
        with_w!(self, w => write_code_on(w, code, tab, v))
    }
    /// Consume through into_inner (which flushes); the backend is dropped.
    pub fn into_inner(self) -> Result<(), SimErr> {
        with_w!(self, w => w.into_inner().map(|_b| ()))
    }
    /// Leak the writer so that its Drop never runs (after a panic or an error
    /// that would make Drop panic).
    pub fn forget(self) {
        std::mem::forget(self)
    }

    /// The trait's default `copy_from`, reached through a pass-through writer.
    pub fn copy_from_default(&mut self, r: &mut AnyReader, n: u64) -> Result<(), String> {
        macro_rules! cf {
            ($E:ty, $w:ident, $($rv:ident),*) => {
                match r {
                    $(AnyReader::$rv(rr) => BitWrite::<$E>::copy_from(&mut PassW($w), rr, n).map_err(|e| format!("{}", e)),)*
                    _ => panic!("harness error: endianness mismatch in copy_from"),
                }
            };
        }
        match self {
            AnyWriter::Be8(w) => cf!(BE, w, Be8, Be16, Be32, Be64, BeU),
            AnyWriter::Be16(w) => cf!(BE, w, Be8, Be16, Be32, Be64, BeU),
            AnyWriter::Be32(w) => cf!(BE, w, Be8, Be16, Be32, Be64, BeU),
            AnyWriter::Be64(w) => cf!(BE, w, Be8, Be16, Be32, Be64, BeU),
            AnyWriter::Be128(w) => cf!(BE, w, Be8, Be16, Be32, Be64, BeU),
            AnyWriter::Le8(w) => cf!(LE, w, Le8, Le16, Le32, Le64, LeU),
            AnyWriter::Le16(w) => cf!(LE, w, Le8, Le16, Le32, Le64, LeU),
            AnyWriter::Le32(w) => cf!(LE, w, Le8, Le16, Le32, Le64, LeU),
            AnyWriter::Le64(w) => cf!(LE, w, Le8, Le16, Le32, Le64, LeU),
            AnyWriter::Le128(w) => cf!(LE, w, Le8, Le16, Le32, Le64, LeU),
        }
    }

    pub fn copy_from(&mut self, r: &mut AnyReader, n: u64) -> Result<(), String> {
        macro_rules! cf {
            ($w:ident, $($rv:ident),*) => {
                match r {
                    $(AnyReader::$rv(rr) => $w.copy_from(rr, n).map_err(|e| format!("{}", e)),)*
                    _ => panic!("harness error: endianness mismatch in copy_from"),
                }
            };
        }
        match self {
            AnyWriter::Be8(w) => cf!(w, Be8, Be16, Be32, Be64, BeU),
            AnyWriter::Be16(w) => cf!(w, Be8, Be16, Be32, Be64, BeU),
            AnyWriter::Be32(w) => cf!(w, Be8, Be16, Be32, Be64, BeU),
            AnyWriter::Be64(w) => cf!(w, Be8, Be16, Be32, Be64, BeU),
            AnyWriter::Be128(w) => cf!(w, Be8, Be16, Be32, Be64, BeU),
            AnyWriter::Le8(w) => cf!(w, Le8, Le16, Le32, Le64, LeU),
            AnyWriter::Le16(w) => cf!(w, Le8, Le16, Le32, Le64, LeU),
            AnyWriter::Le32(w) => cf!(w, Le8, Le16, Le32, Le64, LeU),
            AnyWriter::Le64(w) => cf!(w, Le8, Le16, Le32, Le64, LeU),
            AnyWriter::Le128(w) => cf!(w, Le8, Le16, Le32, Le64, LeU),
        }
    }
}
