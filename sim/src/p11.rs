//! C11 — the byte-stream word adapter is transparent and loss-free under I/O
//! faults.
//!
//! System: the REAL `WordAdapter<W, B>` over the simulated device `SimDisk`
//! (directly, or through the real std `BufWriter` / `BufReader`), driven at the
//! word level (write_word / flush / read_word / word_pos / set_word_pos) and at
//! the bit level (BufBitWriter / BufBitReader over the adapter vs. over memory).
//! Faults: short reads/writes with every per-call byte limit, Interrupted,
//! Ok(0), hard errors, seek errors, full device, trailing partial word — placed
//! at every call index across runs.
//! Oracle: conservation over the recorded device history (see DESIGN §4 C11).

use crate::backends::{SimWord, SparseBytes};
use crate::bits::*;
use crate::fw::*;
use crate::model::{BitModel, En};
use crate::rng::Rng;
use crate::simdisk::*;
use dsi_bitstream::prelude::*;
use serde::{Deserialize, Serialize};
use std::io::{BufReader, BufWriter};

#[derive(Clone, Copy, Debug, PartialEq, Eq, Serialize, Deserialize, Hash)]
pub enum Wrap {
    Direct,
    /// std BufWriter / BufReader with this capacity between adapter and device
    Buffered(usize),
}

#[derive(Clone, Debug, PartialEq, Eq, Serialize, Deserialize)]
pub enum Op11 {
    WriteWord(X128),
    Flush,
    ReadWord,
    Pos,
    SetPos(u64),
}

#[derive(Clone, Debug, PartialEq, Eq, Serialize, Deserialize)]
pub enum BitOp {
    Bits(u64, usize),
    Unary(u64),
    Gamma(u64),
    /// gamma read through the decoding table (read mode; written like Gamma)
    GammaTable(u64),
}

#[derive(Clone, Debug, Serialize, Deserialize)]
pub enum Mode {
    /// word-level history on a writer
    WordWrite { ops: Vec<Op11> },
    /// word-level history on a reader over `content`
    WordRead { content: Vec<u8>, ops: Vec<Op11> },
    /// bit-level stream written through the adapter vs. memory
    BitWrite { e: En, ops: Vec<BitOp> },
    /// bit-level stream read through the adapter vs. memory
    BitRead { e: En, buffered_reader: bool, ops: Vec<BitOp> },
    /// scale: word-level history (reads, positions, seeks) on a byte source of up to 2^62
    /// bytes: `head_words` real words, `zero_words` zero words served by the sparse byte
    /// stub, `tail_words` real words plus `extra` bytes of a partial trailing word
    HugeSeek { head_words: usize, zero_words: u64, tail_words: usize, extra: usize, seed: u64, ops: Vec<Op11> },
}

#[derive(Clone, Debug, Serialize, Deserialize)]
pub struct S11 {
    pub word: Wd,
    pub wrap: Wrap,
    pub plan: FaultPlan,
    pub mode: Mode,
}

fn fault_class(plan: &FaultPlan) -> &'static str {
    if plan.is_empty() {
        "faultfree"
    } else if plan.benign_only() {
        "benign"
    } else {
        "faulting"
    }
}

fn tags(s: &S11, what: &str) -> Vec<String> {
    vec![
        format!("word={:?}", s.word),
        format!("wrap={}", if s.wrap == Wrap::Direct { "direct" } else { "buffered" }),
        format!("class={}", fault_class(&s.plan)),
        format!("op={}", what),
    ]
}

fn harvest_faults(ctx: &mut Ctx, sh: &DiskShared) {
    for ((f, op), n) in &sh.fired {
        ctx.fault(&format!("{}@{}", f, op), *n);
    }
}

// ------------------------------------------------------------ word write

fn word_write<W: SimWord>(s: &S11, ops: &[Op11], ctx: &mut Ctx) {
    // the sink may already hold `start_words` words and be positioned after them when the
    // adapter is created over it (appending to an existing stream)
    let initial: Vec<u8> = (0..s.plan.start_words * W::NBYTES).map(|k| 0x5A ^ (k as u8)).collect();
    let mut disk = SimDisk::new(initial.clone(), &s.plan);
    disk.pre_position(initial.len() as u64);
    let sh = disk.handle();
    ctx.probe_if(!initial.is_empty(), "c11.writer_created_at_nonzero_offset");
    match s.wrap {
        Wrap::Direct => {
            let mut a = WordAdapter::<W, _>::new(disk);
            word_write_run::<W, _>(s, ops, ctx, &mut a, &sh, false);
        }
        Wrap::Buffered(cap) => {
            let mut a = WordAdapter::<W, _>::new(BufWriter::with_capacity(cap.max(1), disk));
            word_write_run::<W, _>(s, ops, ctx, &mut a, &sh, true);
            // BufWriter's own Drop flushes and ignores errors; nothing asserted there
        }
    }
    harvest_faults(ctx, &sh.borrow());
}

fn word_write_run<W: SimWord, A: WordWrite<Word = W, Error = std::io::Error> + WordSeek<Error = std::io::Error>>(
    s: &S11,
    ops: &[Op11],
    ctx: &mut Ctx,
    a: &mut A,
    sh: &std::rc::Rc<std::cell::RefCell<DiskShared>>,
    buffered: bool,
) {
    let nb = W::NBYTES;
    // model device (with whatever the sink held when the adapter was created over it)
    let mut dev: Vec<u8> = (0..s.plan.start_words * nb).map(|k| 0x5A ^ (k as u8)).collect();
    // known[i]: the model knows byte i (false inside a word whose write failed part-way)
    let mut known: Vec<bool> = vec![true; dev.len()];
    let mut pos: usize = dev.len();
    let mut flushed_ok = true; // everything written so far has been flushed
    let class = fault_class(&s.plan);
    // after a failed write (direct wrap) the position is unknown until a successful
    // absolute seek: "seeking to a word position addresses that word"
    let mut lost = false;
    let same = |dev: &Vec<u8>, known: &Vec<bool>, got: &Vec<u8>| -> bool {
        let min_len = known.iter().rposition(|k| *k).map(|p| p + 1).unwrap_or(0);
        if got.len() > dev.len() || got.len() < min_len {
            return false;
        }
        got.iter().enumerate().all(|(i, b)| !known[i] || dev[i] == *b)
    };
    for (i, op) in ops.iter().enumerate() {
        ctx.ops += 1;
        let before_hard = sh.borrow().hard_fired;
        if lost {
            match op {
                Op11::SetPos(_) => {}
                Op11::Flush => {
                    if let Err(p) = guard(|| a.flush()) {
                        return ctx.fail("C11.panic", format!("flush after an error panicked: {}", p));
                    }
                    continue;
                }
                Op11::Pos => {
                    // (direct wrap only) whatever happened before, a reported word position is
                    // the byte position of the stream in words, rounded down or up
                    ctx.step(tags(s, "word_pos_after_error"));
                    match guard(|| a.word_pos()) {
                        Ok(Ok(p)) => {
                            let c = sh.borrow().cursor;
                            ctx.probe("c11.word_pos_after_write_error");
                            if p != c / nb as u64 && p != c.div_ceil(nb as u64) {
                                return ctx.fail(
                                    "C11.word_pos",
                                    format!(
                                        "op #{} word_pos() = {} after a failed write_word, but the byte stream is at byte {} ({} whole words transferred, word size {})",
                                        i, p, c, c / nb as u64, nb
                                    ),
                                );
                            }
                        }
                        Ok(Err(_)) => {}
                        Err(p) => return ctx.fail("C11.panic", format!("word_pos after an error panicked: {}", p)),
                    }
                    continue;
                }
                _ => continue,
            }
        }
        match op {
            Op11::WriteWord(x) => {
                ctx.step(tags(s, "write_word"));
                let w = W::from_u128(x.0);
                let r = match guard(|| a.write_word(w)) {
                    Ok(r) => r,
                    Err(p) => return ctx.fail("C11.panic", format!("write_word panicked: {}", p)),
                };
                ctx.sig(&[0, s.word as u64, buffered as u64, i.min(12) as u64, r.is_ok() as u64, class.len() as u64]);
                ctx.tr(|| format!("#{} write_word({:x}) -> {:?}", i, x.0, r.as_ref().map_err(|e| e.kind())));
                ctx.ev(r.is_ok() as u64);
                match r {
                    Ok(()) => {
                        let bytes = w.to_ne();
                        if dev.len() < pos + nb {
                            dev.resize(pos + nb, 0);
                            known.resize(pos + nb, true);
                        }
                        dev[pos..pos + nb].copy_from_slice(&bytes);
                        for k in known[pos..pos + nb].iter_mut() {
                            *k = true;
                        }
                        pos += nb;
                        flushed_ok = false;
                        ctx.progressed = true;
                        if !buffered {
                            // direct: the device must already hold every acknowledged byte
                            let d = sh.borrow();
                            if !same(&dev, &known, &d.data) {
                                let fired: Vec<String> = d.fired.keys().map(|(f, o)| format!("{}@{}", f, o)).collect();
                                drop(d);
                                return ctx.fail(
                                    "C11.bytes_lost",
                                    format!(
                                        "op #{} write_word returned Ok but the device holds {:02x?} instead of {:02x?} (faults fired so far: {:?}) — acknowledged bytes were dropped, duplicated or reordered",
                                        i, sh.borrow().data, dev, fired
                                    ),
                                );
                            }
                        }
                    }
                    Err(e) => {
                        ctx.probe("c11.write_err_surfaced");
                        if class == "faultfree" {
                            return ctx.fail(
                                "C11.spurious_error",
                                format!("op #{} write_word failed with {:?} on a fault-free device", i, e.kind()),
                            );
                        }
                        if !buffered {
                            // device = model before the call + at most a prefix of the word at pos
                            let d = sh.borrow();
                            let bytes = w.to_ne();
                            let mut ok = false;
                            for k in 0..=nb {
                                let mut exp = dev.clone();
                                let mut kn = known.clone();
                                if k > 0 {
                                    if exp.len() < pos + k {
                                        exp.resize(pos + k, 0);
                                        kn.resize(pos + k, true);
                                    }
                                    exp[pos..pos + k].copy_from_slice(&bytes[..k]);
                                    for x in kn[pos..pos + k].iter_mut() {
                                        *x = true;
                                    }
                                }
                                if same(&exp, &kn, &d.data) {
                                    ok = true;
                                    break;
                                }
                            }
                            if !ok {
                                let got = d.data.clone();
                                drop(d);
                                return ctx.fail(
                                    "C11.bytes_corrupted_on_error",
                                    format!(
                                        "op #{} write_word failed ({:?}) and the device holds {:02x?}, which is not the acknowledged bytes {:02x?} plus a prefix of the failed word",
                                        i, e.kind(), got, dev
                                    ),
                                );
                            }
                        }
                        if buffered {
                            return; // BufWriter after an error: nothing further asserted
                        }
                        // direct: the failed word's bytes are unknown from now on; the position
                        // is lost until a successful absolute seek
                        // (a gap opened by a previous seek beyond the end exists on the device
                        // only if some byte of this word got through: unknown as well)
                        if dev.len() < pos + nb {
                            dev.resize(pos + nb, 0);
                            known.resize(pos + nb, false);
                        }
                        for k in known[pos..pos + nb].iter_mut() {
                            *k = false;
                        }
                        lost = true;
                        continue;
                    }
                }
            }
            Op11::Flush => {
                ctx.step(tags(s, "flush"));
                let r = match guard(|| a.flush()) {
                    Ok(r) => r,
                    Err(p) => return ctx.fail("C11.panic", format!("flush panicked: {}", p)),
                };
                ctx.tr(|| format!("#{} flush -> {:?}", i, r.as_ref().map_err(|e| e.kind())));
                ctx.ev(r.is_ok() as u64);
                match r {
                    Ok(()) => {
                        flushed_ok = true;
                        let d = sh.borrow();
                        if !same(&dev, &known, &d.data) {
                            let got = d.data.clone();
                            drop(d);
                            return ctx.fail(
                                "C11.bytes_lost",
                                format!(
                                    "op #{} flush returned Ok but the device holds {:02x?} instead of {:02x?} — acknowledged bytes were dropped, duplicated or reordered",
                                    i, got, dev
                                ),
                            );
                        }
                        ctx.progressed = true;
                    }
                    Err(e) => {
                        ctx.probe("c11.flush_err_surfaced");
                        if class == "faultfree" {
                            return ctx.fail(
                                "C11.spurious_error",
                                format!("op #{} flush failed with {:?} on a fault-free device", i, e.kind()),
                            );
                        }
                        return;
                    }
                }
            }
            Op11::Pos => {
                ctx.step(tags(s, "word_pos"));
                let r = match guard(|| a.word_pos()) {
                    Ok(r) => r,
                    Err(p) => return ctx.fail("C11.panic", format!("word_pos panicked: {}", p)),
                };
                ctx.ev(*r.as_ref().unwrap_or(&u64::MAX));
                match r {
                    Ok(p) => {
                        if p != (pos / nb) as u64 {
                            return ctx.fail(
                                "C11.word_pos",
                                format!("op #{} word_pos = {} but {} words precede the cursor", i, p, pos / nb),
                            );
                        }
                    }
                    Err(e) => {
                        if class == "faultfree" {
                            return ctx.fail("C11.spurious_error", format!("op #{} word_pos failed: {:?}", i, e.kind()));
                        }
                        return;
                    }
                }
            }
            Op11::SetPos(p) => {
                ctx.step(tags(s, "set_word_pos"));
                let r = match guard(|| a.set_word_pos(*p)) {
                    Ok(r) => r,
                    Err(pm) => return ctx.fail("C11.panic", format!("set_word_pos panicked: {}", pm)),
                };
                ctx.ev(r.is_ok() as u64);
                match r {
                    Ok(()) => {
                        pos = *p as usize * nb;
                        // BufWriter::seek flushes first
                        if buffered {
                            flushed_ok = true;
                        }
                        ctx.probe("c11.seek_on_writer");
                        if lost {
                            ctx.probe("c11.seek_after_write_error_resumes_checking");
                        }
                        lost = false;
                    }
                    Err(e) => {
                        if class == "faultfree" {
                            return ctx.fail(
                                "C11.spurious_error",
                                format!("op #{} set_word_pos({}) failed: {:?}", i, p, e.kind()),
                            );
                        }
                        return;
                    }
                }
            }
            Op11::ReadWord => {}
        }
        let _ = before_hard;
    }
    let _ = flushed_ok;
}

// ------------------------------------------------------------ word read

#[allow(clippy::too_many_arguments)]
fn huge_word_seek<W: SimWord>(s: &S11, head_words: usize, zero_words: u64, tail_words: usize, extra: usize, seed: u64, ops: &[Op11], ctx: &mut Ctx) {
    let nb = W::NBYTES;
    let mut r = Rng::new(seed);
    let head: Vec<u8> = (0..head_words * nb).map(|_| r.next() as u8 | 1).collect();
    let tail: Vec<u8> = (0..tail_words * nb + extra.min(nb - 1)).map(|_| r.next() as u8 | 1).collect();
    let dev = SparseBytes {
        head: std::rc::Rc::new(head.clone()),
        zeros: zero_words * nb as u64,
        tail: std::rc::Rc::new(tail.clone()),
        pos: 0,
    };
    let whole = head_words as u64 + zero_words + tail_words as u64;
    let word_at = |i: u64| -> u128 {
        if i < head_words as u64 {
            W::from_ne(&head[i as usize * nb..(i as usize + 1) * nb]).as_u128()
        } else if i < head_words as u64 + zero_words {
            0
        } else {
            let k = (i - head_words as u64 - zero_words) as usize;
            W::from_ne(&tail[k * nb..(k + 1) * nb]).as_u128()
        }
    };
    match s.wrap {
        Wrap::Direct => {
            let mut a = WordAdapter::<W, _>::new(dev);
            huge_word_seek_run::<W, _>(s, whole, &word_at, ops, ctx, &mut a);
        }
        Wrap::Buffered(cap) => {
            let mut a = WordAdapter::<W, _>::new(BufReader::with_capacity(cap.max(1), dev));
            huge_word_seek_run::<W, _>(s, whole, &word_at, ops, ctx, &mut a);
        }
    }
}

fn huge_word_seek_run<W: SimWord, A: WordRead<Word = W, Error = std::io::Error> + WordSeek<Error = std::io::Error>>(
    s: &S11,
    whole: u64,
    word_at: &dyn Fn(u64) -> u128,
    ops: &[Op11],
    ctx: &mut Ctx,
    a: &mut A,
) {
    let mut pos: u64 = 0;
    let mut lost = false;
    let tg = |what: &str| {
        let mut t = tags(s, what);
        t.push("scale=huge_positions".into());
        t
    };
    for (i, op) in ops.iter().enumerate() {
        ctx.ops += 1;
        match op {
            Op11::ReadWord => {
                ctx.step(tg("read_word"));
                let r = match guard(|| a.read_word()) {
                    Ok(r) => r,
                    Err(p) => return ctx.fail("C11.panic", format!("read_word panicked: {}", p)),
                };
                if lost {
                    continue;
                }
                match r {
                    Ok(w) => {
                        ctx.ev(w.as_u128() as u64);
                        if pos >= whole {
                            return ctx.fail(
                                "C11.fabricated_word",
                                format!("op #{} read_word at word {} returned {:x} although the device holds {} whole words", i, pos, w.as_u128(), whole),
                            );
                        }
                        let exp = word_at(pos);
                        if w.as_u128() != exp {
                            return ctx.fail(
                                "C11.wrong_word",
                                format!("op #{} read_word at word {} returned {:x}, the device holds {:x} there", i, pos, w.as_u128(), exp),
                            );
                        }
                        pos += 1;
                        ctx.progressed = true;
                    }
                    Err(_) => {
                        if pos < whole {
                            return ctx.fail(
                                "C11.spurious_error",
                                format!("op #{} read_word at word {} of {} failed on a fault-free device", i, pos, whole),
                            );
                        }
                        lost = true;
                    }
                }
            }
            Op11::Pos => {
                ctx.step(tg("word_pos"));
                let r = match guard(|| a.word_pos()) {
                    Ok(r) => r,
                    Err(p) => return ctx.fail("C11.panic", format!("word_pos panicked: {}", p)),
                };
                if lost {
                    continue;
                }
                match r {
                    Ok(p) => {
                        ctx.ev(p);
                        if p != pos {
                            return ctx.fail(
                                "C11.word_pos",
                                format!("op #{} word_pos() = {} but {} words precede the next word", i, p, pos),
                            );
                        }
                    }
                    Err(e) => return ctx.fail("C11.spurious_error", format!("op #{} word_pos failed: {}", i, e)),
                }
            }
            Op11::SetPos(p) => {
                ctx.step(tg("set_word_pos"));
                match guard(|| a.set_word_pos(*p)) {
                    Ok(Ok(())) => {
                        pos = *p;
                        lost = false;
                        ctx.cover("c11.huge_seek_log2", 64 - p.leading_zeros() as u64);
                        ctx.probe_if(*p >= 1 << 32, "c11.word_pos_above_2^32");
                    }
                    Ok(Err(e)) => return ctx.fail("C11.spurious_error", format!("op #{} set_word_pos({}) failed on a fault-free device: {}", i, p, e)),
                    Err(pm) => return ctx.fail("C11.panic", format!("set_word_pos({}) panicked: {}", p, pm)),
                }
            }
            _ => {}
        }
        ctx.sig(&[1100, s.word as u64, (s.wrap != Wrap::Direct) as u64, 64 - pos.leading_zeros() as u64, lost as u64]);
    }
}

fn word_read<W: SimWord>(s: &S11, content: &[u8], ops: &[Op11], ctx: &mut Ctx) {
    let disk = SimDisk::new(content.to_vec(), &s.plan);
    let sh = disk.handle();
    match s.wrap {
        Wrap::Direct => {
            let mut a = WordAdapter::<W, _>::new(disk);
            word_read_run::<W, _>(s, content, ops, ctx, &mut a, &sh);
        }
        Wrap::Buffered(cap) => {
            let mut a = WordAdapter::<W, _>::new(BufReader::with_capacity(cap.max(1), disk));
            word_read_run::<W, _>(s, content, ops, ctx, &mut a, &sh);
        }
    }
    harvest_faults(ctx, &sh.borrow());
}

fn word_read_run<W: SimWord, A: WordRead<Word = W, Error = std::io::Error> + WordSeek<Error = std::io::Error>>(
    s: &S11,
    content: &[u8],
    ops: &[Op11],
    ctx: &mut Ctx,
    a: &mut A,
    sh: &std::rc::Rc<std::cell::RefCell<DiskShared>>,
) {
    let nb = W::NBYTES;
    let mut pos: usize = 0;
    let class = fault_class(&s.plan);
    let _ = sh;
    // after an error the position of the stream is unknown ("lost") until a
    // successful absolute seek re-establishes it: "seeking to a word position
    // addresses that word" must hold whatever happened before
    let mut lost = false;
    for (i, op) in ops.iter().enumerate() {
        ctx.ops += 1;
        if lost {
            match op {
                Op11::SetPos(_) => {}
                Op11::ReadWord => {
                    // not asserted, but must not panic
                    if let Err(p) = guard(|| a.read_word()) {
                        return ctx.fail("C11.panic", format!("read_word after an error panicked: {}", p));
                    }
                    continue;
                }
                Op11::Pos if s.wrap == Wrap::Direct => {
                    ctx.step(tags(s, "word_pos_after_error"));
                    match guard(|| a.word_pos()) {
                        Ok(Ok(p)) => {
                            let c = sh.borrow().cursor;
                            ctx.probe("c11.word_pos_after_read_error");
                            if p != c / nb as u64 && p != c.div_ceil(nb as u64) {
                                return ctx.fail(
                                    "C11.word_pos",
                                    format!(
                                        "op #{} word_pos() = {} after a failed read_word, but the byte stream is at byte {} ({} whole words transferred, word size {})",
                                        i, p, c, c / nb as u64, nb
                                    ),
                                );
                            }
                        }
                        Ok(Err(_)) => {}
                        Err(p) => return ctx.fail("C11.panic", format!("word_pos after an error panicked: {}", p)),
                    }
                    continue;
                }
                _ => continue,
            }
        }
        match op {
            Op11::ReadWord => {
                ctx.step(tags(s, "read_word"));
                let r = match guard(|| a.read_word()) {
                    Ok(r) => r,
                    Err(p) => return ctx.fail("C11.panic", format!("read_word panicked: {}", p)),
                };
                let whole = pos + nb <= content.len();
                let partial = !whole && pos < content.len();
                ctx.sig(&[1, s.word as u64, (s.wrap != Wrap::Direct) as u64, i.min(12) as u64, r.is_ok() as u64, whole as u64, partial as u64, class.len() as u64]);
                ctx.tr(|| format!("#{} read_word -> {:?}", i, r.as_ref().map(|w| w.as_u128()).map_err(|e| e.kind())));
                match r {
                    Ok(w) => {
                        ctx.ev(w.as_u128() as u64);
                        if !whole {
                            return ctx.fail(
                                "C11.fabricated_word",
                                format!(
                                    "op #{} read_word returned {:x} although only {} byte(s) remain on the device (a trailing partial word must be an error)",
                                    i,
                                    w.as_u128(),
                                    content.len().saturating_sub(pos)
                                ),
                            );
                        }
                        let exp = W::from_ne(&content[pos..pos + nb]);
                        if w.as_u128() != exp.as_u128() {
                            return ctx.fail(
                                "C11.wrong_word",
                                format!(
                                    "op #{} read_word returned {:x}, device bytes {}..{} are {:x} (bytes dropped, duplicated or reordered)",
                                    i,
                                    w.as_u128(),
                                    pos,
                                    pos + nb,
                                    exp.as_u128()
                                ),
                            );
                        }
                        pos += nb;
                        ctx.progressed = true;
                    }
                    Err(e) => {
                        ctx.ev(u64::MAX);
                        if partial {
                            ctx.probe("c11.partial_trailing_word_err");
                        }
                        ctx.probe("c11.read_err_surfaced");
                        if whole && class == "faultfree" {
                            return ctx.fail(
                                "C11.spurious_error",
                                format!("op #{} read_word failed with {:?} on a fault-free device holding the whole word", i, e.kind()),
                            );
                        }
                        lost = true;
                        continue;
                    }
                }
            }
            Op11::Pos => {
                ctx.step(tags(s, "word_pos"));
                let r = match guard(|| a.word_pos()) {
                    Ok(r) => r,
                    Err(p) => return ctx.fail("C11.panic", format!("word_pos panicked: {}", p)),
                };
                ctx.ev(*r.as_ref().unwrap_or(&u64::MAX));
                match r {
                    Ok(p) => {
                        if p != (pos / nb) as u64 {
                            return ctx.fail(
                                "C11.word_pos",
                                format!("op #{} word_pos = {} but {} words were transferred / precede the cursor", i, p, pos / nb),
                            );
                        }
                    }
                    Err(e) => {
                        if class == "faultfree" {
                            return ctx.fail("C11.spurious_error", format!("op #{} word_pos failed: {:?}", i, e.kind()));
                        }
                        return;
                    }
                }
            }
            Op11::SetPos(p) => {
                ctx.step(tags(s, "set_word_pos"));
                let r = match guard(|| a.set_word_pos(*p)) {
                    Ok(r) => r,
                    Err(pm) => return ctx.fail("C11.panic", format!("set_word_pos panicked: {}", pm)),
                };
                ctx.ev(r.is_ok() as u64);
                match r {
                    Ok(()) => {
                        pos = *p as usize * nb;
                        ctx.probe("c11.seek_on_reader");
                        if lost {
                            ctx.probe("c11.seek_after_read_error_resumes_checking");
                        }
                        lost = false;
                    }
                    Err(e) => {
                        if class == "faultfree" {
                            return ctx.fail(
                                "C11.spurious_error",
                                format!("op #{} set_word_pos({}) failed: {:?}", i, p, e.kind()),
                            );
                        }
                        ctx.probe("c11.seek_err_surfaced");
                        lost = true;
                        continue;
                    }
                }
            }
            _ => {}
        }
    }
}

// ------------------------------------------------------------ bit level

fn bit_write(s: &S11, e: En, ops: &[BitOp], ctx: &mut Ctx) {
    // reference run: same REAL writer over memory; model = canonical image
    let mut model = BitModel::new();
    let wb = match s.wrap {
        Wrap::Direct => WrBackend::Adapter { plan: s.plan.clone() },
        Wrap::Buffered(cap) => WrBackend::BufAdapter {
            cap,
            plan: s.plan.clone(),
        },
    };
    let (w, h) = AnyWriter::new(e, s.word, &wb);
    let mut w = std::mem::ManuallyDrop::new(w);
    let class = fault_class(&s.plan);
    ctx.step(tags(s, "bit_write"));
    for (i, op) in ops.iter().enumerate() {
        ctx.ops += 1;
        let r = guard(|| match op {
            BitOp::Bits(v, n) => w.write_bits(*v, *n),
            BitOp::Unary(x) => w.write_unary(*x),
            BitOp::Gamma(x) | BitOp::GammaTable(x) => w.write_code(Code::Gamma, 0, *x),
        });
        let r = match r {
            Ok(r) => r,
            Err(p) => return ctx.fail("C11.panic", format!("bit op #{} panicked: {}", i, p)),
        };
        ctx.ev(r.is_ok() as u64);
        match r {
            Ok(_) => match op {
                BitOp::Bits(v, n) => model.push_bits(e, *v, *n),
                BitOp::Unary(x) => model.push_unary(*x),
                BitOp::Gamma(x) | BitOp::GammaTable(x) => {
                    let l = 63 - (x + 1).leading_zeros() as usize;
                    model.push_unary(l as u64);
                    model.push_bits(e, x + 1, l);
                }
            },
            Err(er) => {
                ctx.probe("c11.bit_write_err_surfaced");
                if class == "faultfree" {
                    ctx.fail("C11.spurious_error", format!("bit op #{} failed: {}", i, er));
                }
                if let Some(d) = &h.disk {
                    harvest_faults(ctx, &d.borrow());
                }
                return;
            }
        }
    }
    // close: flush explicitly (Drop would panic on a failing sink)
    let r = match guard(|| w.flush()) {
        Ok(r) => r,
        Err(p) => return ctx.fail("C11.panic", format!("flush panicked: {}", p)),
    };
    let sh = h.disk.as_ref().unwrap().clone();
    match r {
        Ok(_) => {
            model.pad_to_multiple(s.word.bits());
            let exp = model.to_bytes(e);
            let got = sh.borrow().data.clone();
            ctx.ev_bytes(&got);
            ctx.progressed = true;
            ctx.sig(&[2, s.word as u64, (s.wrap != Wrap::Direct) as u64, e as u64, class.len() as u64, ops.len().min(8) as u64]);
            if got != exp {
                ctx.fail(
                    "C11.bytes_lost",
                    format!(
                        "bit stream written through the adapter: every call returned Ok but the device holds {:02x?}, memory image is {:02x?}",
                        got, exp
                    ),
                );
            }
            // safe to drop now: nothing pending, sink accepted everything so far
            if s.plan.is_empty() || s.plan.benign_only() {
                let _ = guard(|| unsafe { std::mem::ManuallyDrop::drop(&mut w) });
            }
        }
        Err(er) => {
            ctx.probe("c11.bit_write_err_surfaced");
            if class == "faultfree" {
                ctx.fail("C11.spurious_error", format!("final flush failed: {}", er));
            }
            // the sink's own flush failed after every byte had been accepted (direct wrap,
            // no failed or short-circuited write before): the caller is expected to flush
            // again; if that succeeds the device holds the stream exactly once
            let sink_flush_failed = {
                let d = sh.borrow();
                s.wrap == Wrap::Direct
                    && matches!(d.log.last(), Some(ev) if ev.op == DiskOp::Flush && ev.res.is_err())
                    && !d.log.iter().any(|ev| ev.op == DiskOp::Write && ev.res.is_err())
            };
            if sink_flush_failed && !ctx.failed() {
                ctx.step(tags(s, "flush_retried_after_sink_flush_error"));
                match guard(|| w.flush()) {
                    Ok(Ok(_)) => {
                        ctx.probe("c11.flush_retried_after_sink_flush_error");
                        model.pad_to_multiple(s.word.bits());
                        let exp = model.to_bytes(e);
                        let got = sh.borrow().data.clone();
                        ctx.ev_bytes(&got);
                        if got != exp {
                            ctx.fail(
                                "C11.bytes_duplicated",
                                format!(
                                    "the sink's flush failed once after all bytes had been accepted; the retried flush returned Ok and the device holds {:02x?}, memory image is {:02x?}",
                                    got, exp
                                ),
                            );
                        }
                    }
                    Ok(Err(_)) => {}
                    Err(p) => ctx.fail("C11.panic", format!("retried flush panicked: {}", p)),
                }
            }
        }
    }
    harvest_faults(ctx, &sh.borrow());
}

fn bit_read(s: &S11, e: En, buffered_reader: bool, ops: &[BitOp], ctx: &mut Ctx) {
    // build a valid image with the model
    let mut model = BitModel::new();
    for op in ops {
        match op {
            BitOp::Bits(v, n) => model.push_bits(e, *v, *n),
            BitOp::Unary(x) => model.push_unary(*x),
            BitOp::Gamma(x) | BitOp::GammaTable(x) => {
                let l = 63 - (x + 1).leading_zeros() as usize;
                model.push_unary(l as u64);
                model.push_bits(e, x + 1, l);
            }
        }
    }
    model.pad_to_multiple(128);
    let bytes = model.to_bytes(e);
    let kind = if buffered_reader {
        match s.word {
            Wd::U8 => RdKind::B8,
            Wd::U16 => RdKind::B16,
            Wd::U32 => RdKind::B32,
            _ => RdKind::B64,
        }
    } else {
        RdKind::U64
    };
    let rb = match s.wrap {
        Wrap::Direct => RdBackend::Adapter { plan: s.plan.clone() },
        Wrap::Buffered(cap) => RdBackend::BufAdapter {
            cap,
            plan: s.plan.clone(),
        },
    };
    let (mut r, h) = AnyReader::new(e, kind, &rb, &bytes);
    let class = fault_class(&s.plan);
    let uses_tables = kind != RdKind::B8 && ops.iter().any(|o| matches!(o, BitOp::GammaTable(_)));
    let mut t = tags(s, "bit_read");
    t.push(format!("table_reads={}", if uses_tables { "yes" } else { "no" }));
    ctx.step(t);
    ctx.probe_if(uses_tables && class == "faulting", "c11.table_reads_under_hard_faults");
    let mut pos = 0usize;
    for (i, op) in ops.iter().enumerate() {
        ctx.ops += 1;
        let (res, exp, adv) = match op {
            BitOp::Bits(v, n) => {
                let m = if *n == 64 { u64::MAX } else { (1u64 << n) - 1 };
                (guard(|| r.read_bits(*n)), v & m, *n)
            }
            BitOp::Unary(x) => (guard(|| r.read_unary()), *x, *x as usize + 1),
            BitOp::Gamma(x) => {
                let l = 63 - (x + 1).leading_zeros() as usize;
                (guard(|| r.read_code(Code::Gamma, 0)), *x, 2 * l + 1)
            }
            BitOp::GammaTable(x) => {
                let l = 63 - (x + 1).leading_zeros() as usize;
                // u8 readers cannot serve the table (diagnosed): plain read there
                let tab = if kind == RdKind::B8 { 0 } else { 1 };
                (guard(|| r.read_code(Code::Gamma, tab)), *x, 2 * l + 1)
            }
        };
        let res = match res {
            Ok(r) => r,
            Err(p) => return ctx.fail("C11.panic", format!("bit read op #{} panicked: {}", i, p)),
        };
        match res {
            Ok(v) => {
                ctx.ev(v);
                ctx.progressed = true;
                if v != exp {
                    ctx.fail(
                        "C11.wrong_word",
                        format!("bit read op #{} ({:?}) through the adapter returned {}, the stream holds {} at bit {}", i, op, v, exp, pos),
                    );
                    break;
                }
                pos += adv;
            }
            Err(er) => {
                ctx.probe("c11.bit_read_err_surfaced");
                if class == "faultfree" {
                    ctx.fail("C11.spurious_error", format!("bit read op #{} failed on a fault-free device: {}", i, er));
                }
                break;
            }
        }
    }
    ctx.sig(&[3, kind as u64, (s.wrap != Wrap::Direct) as u64, e as u64, class.len() as u64, ops.len().min(8) as u64]);
    if let Some(d) = &h.disk {
        harvest_faults(ctx, &d.borrow());
    }
}

// ------------------------------------------------------------ family

pub struct C11;

fn gen_plan(rng: &mut Rng, index: u64, nbytes: usize, ncalls: usize) -> FaultPlan {
    // class: 0 fault-free, 1 benign-only, 2 faulting
    let class = (index / 5) % 3;
    let mut plan = FaultPlan::none();
    if class == 0 {
        return plan;
    }
    // systematic part: one fault at call index (index/15) % ncalls with byte limit (index/15/ncalls) % nbytes
    let sys_call = ((index / 15) as usize) % ncalls.max(1);
    let sys_lim = 1 + ((index / 15) as usize / ncalls.max(1)) % nbytes.max(1);
    let benign = |rng: &mut Rng, lim: usize| -> Fault {
        if rng.chance(1, 4) {
            Fault::Interrupted
        } else {
            Fault::Short(lim)
        }
    };
    let first = if class == 1 {
        if (index / 15) % 4 == 3 {
            Fault::Interrupted
        } else {
            Fault::Short(sys_lim.min(nbytes.saturating_sub(1)).max(1))
        }
    } else {
        match rng.below(5) {
            0 => Fault::Zero,
            1 => Fault::SeekErr,
            2 => Fault::Hard(*rng.pick(&ErrK::HARD)),
            3 => Fault::Hard(ErrK::Other),
            _ => Fault::Hard(ErrK::UnexpectedEof),
        }
    };
    plan.at.push((sys_call, first));
    // swarm part: extra benign faults at a per-run rate 0..30 %; one run in 16 is a
    // "trickle" device instead: (almost) every call transfers a single byte or is
    // interrupted, so that assembling one word takes dozens of calls
    if rng.chance(1, 16) {
        let pint = rng.range(30, 75);
        for c in 0..(ncalls * (2 * nbytes + 4) * 3) {
            if c != sys_call {
                plan.at.push((c, if rng.below(100) < pint { Fault::Interrupted } else { Fault::Short(1) }));
            }
        }
    } else {
        let rate = rng.below(31);
        for c in 0..(ncalls * 3) {
            if c != sys_call && rng.below(100) < rate {
                let lim = rng.usize_range(1, nbytes.max(2) - 1).max(1);
                plan.at.push((c, benign(rng, lim)));
            }
        }
    }
    if class == 2 && rng.chance(1, 6) {
        plan.capacity = Some(rng.usize_range(0, nbytes * 6));
    }
    plan.at.sort_by_key(|x| x.0);
    plan
}

impl Family for C11 {
    type Scn = S11;
    const ID: &'static str = "C11";

    fn gen(rng: &mut Rng, _tier: Tier, index: u64) -> S11 {
        let word = Wd::ALL[(index % 5) as usize];
        let nb = word.bytes();
        let wrap = match rng.below(3) {
            0 | 1 => Wrap::Direct,
            _ => Wrap::Buffered(*rng.pick(&[1usize, 2, 3, 5, 8, 16, 17, 64])),
        };
        let which = rng.below(10);
        let nops = rng.usize_range(1, 14);
        if index % 25 == 17 {
            // (index % 25 is correlated with the word selection above)
            let word = *rng.pick(&Wd::ALL);
            let nb = word.bytes();
            let k = *rng.pick(&[29u32, 32, 32, 33, 36, 40, 48, 56, 62]);
            let zero_words = (1u64 << k) / nb as u64 + rng.below(1000);
            let head_words = rng.usize_range(0, 5);
            let tail_words = rng.usize_range(0, 6);
            let whole = head_words as u64 + zero_words + tail_words as u64;
            let mut ops = Vec::new();
            for _ in 0..nops + 2 {
                ops.push(match rng.below(10) {
                    0..=4 => Op11::ReadWord,
                    5 | 6 => Op11::Pos,
                    _ => Op11::SetPos(match rng.below(5) {
                        0 => rng.below(head_words as u64 + 2),
                        1 => head_words as u64 + zero_words - rng.below(3),
                        2 => head_words as u64 + zero_words / 2 + rng.below(1000),
                        3 => whole - rng.below(tail_words as u64 + 2).min(whole),
                        _ => whole + rng.below(3),
                    }),
                });
            }
            return S11 {
                word,
                wrap,
                plan: FaultPlan::none(),
                mode: Mode::HugeSeek {
                    head_words,
                    zero_words,
                    tail_words,
                    extra: rng.usize_range(0, nb - 1),
                    seed: rng.next(),
                    ops,
                },
            };
        }
        let mode = if which < 4 {
            let mut ops = Vec::new();
            for _ in 0..nops {
                ops.push(match rng.below(12) {
                    0..=7 => Op11::WriteWord(X128((rng.next() as u128) << 64 | rng.next() as u128 | 0x0102_0304_0506_0708_090a_0b0c_0d0e_0f10)),
                    8 | 9 => Op11::Flush,
                    10 => Op11::Pos,
                    _ => Op11::SetPos(rng.below(nops as u64 + 2)),
                });
            }
            ops.push(Op11::Flush);
            Mode::WordWrite { ops }
        } else if which < 8 {
            let nwords = rng.usize_range(0, 10);
            let extra = if rng.chance(1, 3) { rng.usize_range(1, nb.max(2) - 1) } else { 0 };
            let extra = if nb == 1 { 0 } else { extra };
            let content: Vec<u8> = (0..nwords * nb + extra).map(|k| (k as u8).wrapping_mul(37).wrapping_add(rng.below(256) as u8) | 1).collect();
            let mut ops = Vec::new();
            for _ in 0..nops {
                ops.push(match rng.below(12) {
                    0..=8 => Op11::ReadWord,
                    9 => Op11::Pos,
                    _ => Op11::SetPos(rng.below(nwords as u64 + 2)),
                });
            }
            Mode::WordRead { content, ops }
        } else {
            let e = if rng.chance(1, 2) { En::BE } else { En::LE };
            let mut ops = Vec::new();
            for _ in 0..nops * 2 {
                ops.push(match rng.below(3) {
                    0 => {
                        let n = rng.usize_range(0, 64);
                        BitOp::Bits(rng.next(), n)
                    }
                    1 => BitOp::Unary(rng.below(70)),
                    _ => BitOp::Gamma(rng.interesting(u64::MAX - 1)),
                });
            }
            if which == 8 {
                Mode::BitWrite { e, ops }
            } else {
                let ops: Vec<BitOp> = ops
                    .into_iter()
                    .map(|o| match o {
                        BitOp::Gamma(x) if rng.chance(1, 2) => BitOp::GammaTable(x.min(rng.below(400))),
                        o => o,
                    })
                    .collect();
                Mode::BitRead {
                    e,
                    buffered_reader: word != Wd::U128 && rng.chance(3, 4),
                    ops,
                }
            }
        };
        let word = match (&mode, word) {
            // bit readers exist for u8..u64 only
            (Mode::BitRead { .. }, Wd::U128) => Wd::U64,
            (_, w) => w,
        };
        let mut plan = gen_plan(rng, index, word.bytes(), nops + 2);
        if matches!(mode, Mode::WordWrite { .. }) && rng.chance(1, 5) {
            plan.start_words = rng.usize_range(1, 3);
        }
        S11 { word, wrap, plan, mode }
    }

    fn exec(s: &S11, ctx: &mut Ctx) {
        macro_rules! disp {
            ($f:ident, $($a:expr),*) => {
                match s.word {
                    Wd::U8 => $f::<u8>($($a),*),
                    Wd::U16 => $f::<u16>($($a),*),
                    Wd::U32 => $f::<u32>($($a),*),
                    Wd::U64 => $f::<u64>($($a),*),
                    Wd::U128 => $f::<u128>($($a),*),
                }
            };
        }
        match &s.mode {
            Mode::WordWrite { ops } => disp!(word_write, s, ops, ctx),
            Mode::WordRead { content, ops } => disp!(word_read, s, content, ops, ctx),
            Mode::BitWrite { e, ops } => bit_write(s, *e, ops, ctx),
            Mode::BitRead { e, buffered_reader, ops } => bit_read(s, *e, *buffered_reader, ops, ctx),
            Mode::HugeSeek { head_words, zero_words, tail_words, extra, seed, ops } => {
                disp!(huge_word_seek, s, *head_words, *zero_words, *tail_words, *extra, *seed, ops, ctx)
            }
        }
    }

    fn shrink(s: &S11) -> Vec<S11> {
        let mut out = Vec::new();
        match &s.mode {
            Mode::WordWrite { ops } => {
                for o in shrink_list(ops) {
                    out.push(S11 { mode: Mode::WordWrite { ops: o }, ..s.clone() });
                }
            }
            Mode::WordRead { content, ops } => {
                for o in shrink_list(ops) {
                    out.push(S11 { mode: Mode::WordRead { content: content.clone(), ops: o }, ..s.clone() });
                }
                let nb = s.word.bytes();
                if content.len() > nb {
                    out.push(S11 {
                        mode: Mode::WordRead { content: content[..content.len() - nb].to_vec(), ops: ops.clone() },
                        ..s.clone()
                    });
                }
            }
            Mode::BitWrite { e, ops } => {
                for o in shrink_list(ops) {
                    out.push(S11 { mode: Mode::BitWrite { e: *e, ops: o }, ..s.clone() });
                }
            }
            Mode::BitRead { e, buffered_reader, ops } => {
                for o in shrink_list(ops) {
                    out.push(S11 { mode: Mode::BitRead { e: *e, buffered_reader: *buffered_reader, ops: o }, ..s.clone() });
                }
            }
            Mode::HugeSeek { head_words, zero_words, tail_words, extra, seed, ops } => {
                let mk = |ops: Vec<Op11>, z: u64, x: usize| S11 {
                    mode: Mode::HugeSeek { head_words: *head_words, zero_words: z, tail_words: *tail_words, extra: x, seed: *seed, ops },
                    ..s.clone()
                };
                for o in shrink_list(ops) {
                    out.push(mk(o, *zero_words, *extra));
                }
                if *extra > 0 {
                    out.push(mk(ops.clone(), *zero_words, 0));
                }
            }
        }
        // simpler fault plans (the class tag is preserved by the minimiser through the tags)
        for plan in s.plan.shrink(s.word.bytes()) {
            out.push(S11 { plan, ..s.clone() });
        }
        out
    }

    fn rule() -> &'static str {
        "one case = (word type u8..u128, adapter directly over SimDisk or through std BufWriter/BufReader of a small capacity, fault plan, history). Histories: word-level writes+flush+word_pos+set_word_pos, word-level reads over a device whose length may end inside a word, bit-level streams written/read through the adapter. Fault plans: fault-free / benign-only (Short(k) for every k in 1..word bytes-1, Interrupted) / faulting (Ok(0), hard error kinds, seek error, full device); the first fault is placed systematically at call index (run/15) mod calls so that every call index is hit across runs, further benign faults at a per-run rate of 0-30%. distinct_nontrivial = distinct (mode, word, wrap, call index (capped), call outcome, whole/partial word available, fault class) signatures in runs that transferred at least one word Scale scenarios (one run in 25, fault-free): word-level reads, word_pos and set_word_pos on a byte source of up to 2^62 bytes (real head, zero run, real tail ending in a partial word), positions around 2^29 .. 2^62 bytes and around the end."
    }

    fn components() -> (Vec<&'static str>, Vec<&'static str>) {
        (
            vec!["WordAdapter (read_word/write_word/flush/word_pos/set_word_pos)", "std::io::BufWriter", "std::io::BufReader", "BufBitWriter", "BufBitReader", "BitReader"],
            vec!["SimDisk (simulated byte device with fault plan)", "sparse byte source (scale scenarios)"],
        )
    }

    fn required_probes(_t: Tier) -> Vec<&'static str> {
        vec![
            "c11.flush_retried_after_sink_flush_error",
            "c11.writer_created_at_nonzero_offset",
            "c11.word_pos_after_write_error",
            "c11.word_pos_after_read_error",
            "c11.word_pos_above_2^32",
            "c11.read_err_surfaced",
            "c11.partial_trailing_word_err",
            "c11.seek_on_reader",
            "c11.seek_on_writer",
            "c11.seek_after_read_error_resumes_checking",
            "c11.seek_after_write_error_resumes_checking",
        ]
    }

    fn runs(t: Tier) -> u64 {
        match t {
            Tier::Quick => 4_000_000,
            Tier::Thorough => 300_000_000,
        }
    }

    fn level() -> &'static str {
        "fault_enumeration"
    }

    fn assumptions() -> Vec<&'static str> {
        vec![
            "SimDisk behaves within the std::io Read/Write/Seek contracts (short counts >= 1, Interrupted, Ok(0), errors transfer nothing)",
            "after the first error returned on a stream nothing further is asserted about that stream",
        ]
    }
}
