//! Simulation framework: execution context (event digest, probes, state
//! signatures, fault counters, violation), panic capture, the `Family` trait
//! every property implements, and generic shrinking helpers.

use crate::rng::Rng;
use serde::{de::DeserializeOwned, Serialize};
use std::cell::RefCell;
use std::collections::{BTreeMap, BTreeSet};
use std::panic::{catch_unwind, AssertUnwindSafe};

#[derive(Clone, Copy, Debug, PartialEq, Eq)]
pub enum Tier {
    Quick,
    Thorough,
}

#[derive(Clone, Debug, PartialEq, Eq, Serialize, serde::Deserialize)]
pub struct Violation {
    /// e.g. "C07.pos_after_seek"
    pub oracle: String,
    pub detail: String,
    /// configuration-level tags of the failing step (reader kind, table, ...);
    /// used for grouping, known-finding matching and as the invariant the
    /// minimiser preserves.
    pub tags: Vec<String>,
    /// index of the step at which it fired
    pub step: u64,
}

#[derive(Default)]
pub struct Ctx {
    pub digest: u64,
    pub probes: BTreeMap<&'static str, u64>,
    pub sigs: BTreeSet<u64>,
    /// named coverage sets (e.g. decode-table indices seen)
    pub cover: BTreeMap<&'static str, BTreeSet<u64>>,
    pub faults: BTreeMap<String, u64>,
    pub violation: Option<Violation>,
    pub steps: u64,
    pub ops: u64,
    pub cur_tags: Vec<String>,
    pub trace: Option<Vec<String>>,
    /// run made progress (at least one checked non-trivial step)
    pub progressed: bool,
}

impl Ctx {
    pub fn new(trace: bool) -> Self {
        Ctx {
            digest: 0xcbf2_9ce4_8422_2325,
            trace: if trace { Some(Vec::new()) } else { None },
            ..Default::default()
        }
    }

    #[inline]
    pub fn ev(&mut self, x: u64) {
        for b in x.to_le_bytes() {
            self.digest ^= b as u64;
            self.digest = self.digest.wrapping_mul(0x0000_0100_0000_01b3);
        }
    }
    pub fn ev_bytes(&mut self, xs: &[u8]) {
        self.ev(xs.len() as u64);
        for b in xs {
            self.digest ^= *b as u64;
            self.digest = self.digest.wrapping_mul(0x0000_0100_0000_01b3);
        }
    }
    pub fn ev_str(&mut self, s: &str) {
        self.ev_bytes(s.as_bytes())
    }
    #[inline]
    pub fn probe(&mut self, name: &'static str) {
        *self.probes.entry(name).or_insert(0) += 1;
    }
    #[inline]
    pub fn probe_if(&mut self, cond: bool, name: &'static str) {
        if cond {
            self.probe(name)
        }
    }
    #[inline]
    pub fn sig(&mut self, parts: &[u64]) {
        let mut h: u64 = 0xcbf2_9ce4_8422_2325;
        for p in parts {
            for b in p.to_le_bytes() {
                h ^= b as u64;
                h = h.wrapping_mul(0x0000_0100_0000_01b3);
            }
        }
        self.sigs.insert(h);
    }
    #[inline]
    pub fn cover(&mut self, name: &'static str, x: u64) {
        self.cover.entry(name).or_default().insert(x);
    }
    pub fn fault(&mut self, name: &str, n: u64) {
        if n > 0 {
            *self.faults.entry(name.to_string()).or_insert(0) += n;
        }
    }
    pub fn step(&mut self, tags: Vec<String>) {
        self.steps += 1;
        self.cur_tags = tags;
    }
    pub fn set_tags(&mut self, tags: Vec<String>) {
        self.cur_tags = tags;
    }
    pub fn tr(&mut self, f: impl FnOnce() -> String) {
        if let Some(t) = &mut self.trace {
            t.push(f());
        }
    }
    pub fn failed(&self) -> bool {
        self.violation.is_some()
    }
    /// Record a violation (first one wins).
    pub fn fail(&mut self, oracle: &str, detail: String) {
        if self.violation.is_none() {
            self.violation = Some(Violation {
                oracle: oracle.to_string(),
                detail,
                tags: self.cur_tags.clone(),
                step: self.steps,
            });
        }
    }
    /// check helper: returns true when ok
    pub fn check(&mut self, cond: bool, oracle: &str, detail: impl FnOnce() -> String) -> bool {
        if !cond {
            self.fail(oracle, detail());
        }
        cond
    }
}

thread_local! {
    static LAST_PANIC: RefCell<String> = RefCell::new(String::new());
}

pub fn install_panic_hook() {
    std::panic::set_hook(Box::new(|info| {
        let msg = if let Some(s) = info.payload().downcast_ref::<&str>() {
            s.to_string()
        } else if let Some(s) = info.payload().downcast_ref::<String>() {
            s.clone()
        } else {
            "panic".to_string()
        };
        let loc = info
            .location()
            .map(|l| format!("{}:{}", l.file(), l.line()))
            .unwrap_or_default();
        LAST_PANIC.with(|p| *p.borrow_mut() = format!("{} at {}", msg, loc));
    }));
}

pub fn last_panic() -> String {
    LAST_PANIC.with(|p| p.borrow().clone())
}

/// Run a piece of library code, turning a panic into Err(message).
#[inline]
pub fn guard<T>(f: impl FnOnce() -> T) -> Result<T, String> {
    match catch_unwind(AssertUnwindSafe(f)) {
        Ok(v) => Ok(v),
        Err(_) => Err(last_panic()),
    }
}

/// Is this panic message one raised by the harness itself (bug in the harness,
/// not a violation)?
pub fn is_harness_panic(msg: &str) -> bool {
    msg.contains("harness error") || msg.contains("/verif/sim/src")
}

pub trait Family {
    type Scn: Serialize + DeserializeOwned + Clone + std::fmt::Debug;
    const ID: &'static str;
    /// Generate the scenario of one run.
    fn gen(rng: &mut Rng, tier: Tier, index: u64) -> Self::Scn;
    /// Execute it against the real code. Pure function of the scenario.
    fn exec(s: &Self::Scn, ctx: &mut Ctx);
    /// Candidate simplifications, most aggressive first.
    fn shrink(s: &Self::Scn) -> Vec<Self::Scn>;
    /// Scenario-level tags, used for violations that cannot report their own
    /// (a run that hangs or aborts the process).
    fn scenario_tags(_s: &Self::Scn) -> Vec<String> {
        vec![]
    }
    /// Scale scenarios that legitimately run for seconds (announced to the parent, which
    /// then suspends its stall detection for this run).
    fn long_running(_s: &Self::Scn) -> bool {
        false
    }
    /// Rule text for evidence.
    fn rule() -> &'static str;
    /// Components: (real, stub)
    fn components() -> (Vec<&'static str>, Vec<&'static str>);
    /// Probes that must be non-zero in a thorough run (reach requirements).
    fn required_probes(_tier: Tier) -> Vec<&'static str> {
        vec![]
    }
    /// Named coverage sets with the minimum size a run of this tier must reach.
    fn required_cover(_tier: Tier) -> Vec<(&'static str, usize)> {
        vec![]
    }
    fn runs(tier: Tier) -> u64;
    fn level() -> &'static str {
        "exploration"
    }
    fn assumptions() -> Vec<&'static str> {
        vec![]
    }
}

/// Execute with panic protection at the outermost level as well.
pub fn exec_guarded<F: Family>(s: &F::Scn, trace: bool) -> Ctx {
    let mut ctx = Ctx::new(trace);
    let r = catch_unwind(AssertUnwindSafe(|| F::exec(s, &mut ctx)));
    if r.is_err() {
        let msg = last_panic();
        if is_harness_panic(&msg) {
            ctx.fail("HARNESS.panic", msg);
        } else {
            ctx.fail(&format!("{}.panic", F::ID), format!("library panicked: {}", msg));
        }
    }
    ctx
}

// ------------------------------------------------------------ shrink helpers

/// Candidates obtained by removing chunks of a list (ddmin style: halves,
/// quarters, ..., single elements).
pub fn shrink_list<T: Clone>(xs: &[T]) -> Vec<Vec<T>> {
    let n = xs.len();
    let mut out = Vec::new();
    if n == 0 {
        return out;
    }
    let mut chunk = n;
    while chunk >= 1 {
        let mut start = 0;
        while start < n {
            let end = (start + chunk).min(n);
            let mut v = Vec::with_capacity(n - (end - start));
            v.extend_from_slice(&xs[..start]);
            v.extend_from_slice(&xs[end..]);
            out.push(v);
            start += chunk;
        }
        if chunk == 1 {
            break;
        }
        chunk /= 2;
    }
    out
}

/// Smaller candidates for an integer.
pub fn shrink_u64(x: u64) -> Vec<u64> {
    let mut out = Vec::new();
    if x == 0 {
        return out;
    }
    out.push(0);
    if x > 1 {
        out.push(1);
    }
    if x > 2 {
        out.push(x / 2);
    }
    // clear high bits one at a time
    let top = 63 - x.leading_zeros();
    if top > 0 {
        out.push(x & !(1u64 << top));
    }
    out.push(x - 1);
    out.sort();
    out.dedup();
    out.retain(|y| *y < x);
    out
}

pub fn shrink_usize(x: usize) -> Vec<usize> {
    shrink_u64(x as u64).into_iter().map(|y| y as usize).collect()
}

// ------------------------------------------------------------ u128 in JSON

/// u128 that serialises as a hex string (serde_json has no native u128).
#[derive(Clone, Copy, Debug, PartialEq, Eq, Hash, Default)]
pub struct X128(pub u128);

impl Serialize for X128 {
    fn serialize<S: serde::Serializer>(&self, s: S) -> Result<S::Ok, S::Error> {
        s.serialize_str(&format!("{:x}", self.0))
    }
}
impl<'de> serde::Deserialize<'de> for X128 {
    fn deserialize<D: serde::Deserializer<'de>>(d: D) -> Result<Self, D::Error> {
        let s = String::deserialize(d)?;
        u128::from_str_radix(&s, 16).map(X128).map_err(serde::de::Error::custom)
    }
}
