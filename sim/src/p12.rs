//! C12 — std::io::Read / std::io::Write views of a bit stream are byte-exact.
//!
//! Histories interleave ordinary bit operations with `io::Write::write` /
//! `write_all` of slices (length 0..=40 and longer random ones) on the REAL
//! BufBitWriter for every backend word u8..u128, and `io::Read::read` into
//! buffers of the same lengths on BufBitReader u8..u64 and BitReader, at every
//! starting bit offset 0..=2W.
//! Oracle: the model stream gains / yields exactly those bytes in stream order
//! starting at the current position; the call reports the whole slice; no panic.

use crate::bits::*;
use crate::fw::*;
use crate::model::{BitModel, En};
use crate::p01::CLEAN_ARGS;
use crate::p02::exec_rops;
use crate::rng::Rng;
use crate::rsim::*;
use serde::{Deserialize, Serialize};
use std::mem::ManuallyDrop;
use std::sync::atomic::Ordering;

#[derive(Clone, Debug, PartialEq, Eq, Serialize, Deserialize)]
pub enum WOp12 {
    Bits { v: u64, n: usize },
    Unary { x: u64 },
    Bytes {
        data: Vec<u8>,
        all: bool,
        /// the slice handed to the library starts at this offset (0..8) from an 8-byte
        /// aligned address (alignment of caller memory is an input like any other)
        #[serde(default)]
        align: u8,
    },
    Flush,
}

#[derive(Clone, Debug, Serialize, Deserialize)]
pub enum Mode12 {
    Write { word: Wd, ops: Vec<WOp12> },
    Read { kind: RdKind, backend: RdBackend, image: Vec<u8>, ops: Vec<ROp> },
    /// scale: one slice / buffer of 512 KiB or more (pseudo-random bytes derived from `seed`)
    /// at a bit offset given by the raw fields `off`
    Big { write: bool, word: Wd, kind: RdKind, off: Vec<(u64, usize)>, len: usize, seed: u64, all: bool },
}

/// A copy of `data` placed at offset `off` (0..8) from an 8-byte aligned address.
pub struct AlignedBytes {
    backing: Vec<u64>,
    off: usize,
    len: usize,
}

impl AlignedBytes {
    pub fn new(data: &[u8], off: usize) -> Self {
        let off = off % 8;
        let mut backing = vec![0u64; (data.len() + off).div_ceil(8) + 1];
        // SAFETY: a u64 buffer viewed as bytes, within its allocation
        let bytes = unsafe { std::slice::from_raw_parts_mut(backing.as_mut_ptr() as *mut u8, backing.len() * 8) };
        bytes[off..off + data.len()].copy_from_slice(data);
        AlignedBytes { backing, off, len: data.len() }
    }
    pub fn get(&self) -> &[u8] {
        // SAFETY: as above
        let bytes = unsafe { std::slice::from_raw_parts(self.backing.as_ptr() as *const u8, self.backing.len() * 8) };
        &bytes[self.off..self.off + self.len]
    }
    pub fn get_mut(&mut self) -> &mut [u8] {
        // SAFETY: as above
        let bytes = unsafe { std::slice::from_raw_parts_mut(self.backing.as_mut_ptr() as *mut u8, self.backing.len() * 8) };
        &mut bytes[self.off..self.off + self.len]
    }
}

pub const BIG_LENS: [usize; 7] = [524_287, 524_288, 524_289, 524_296, 532_291, 1_048_576, 1_048_583];

fn big_data(seed: u64, len: usize) -> Vec<u8> {
    let mut r = Rng::new(seed);
    let mut out = Vec::with_capacity(len + 8);
    while out.len() < len {
        out.extend_from_slice(&r.next().to_le_bytes());
    }
    out.truncate(len);
    out
}

fn first_diff(a: &[u8], b: &[u8]) -> String {
    let k = a.iter().zip(b.iter()).position(|(x, y)| x != y).unwrap_or(a.len().min(b.len()));
    let w = |x: &[u8]| format!("{:02x?}", &x[k.min(x.len())..(k + 12).min(x.len())]);
    format!("lengths {} / {} bytes, first difference at byte {}: {} vs {}", a.len(), b.len(), k, w(a), w(b))
}

#[allow(clippy::too_many_arguments)]
fn run_big(e: En, write: bool, word: Wd, kind: RdKind, off: &[(u64, usize)], len: usize, seed: u64, all: bool, ctx: &mut Ctx) {
    let data = big_data(seed, len);
    let mut model = BitModel::new();
    for (v, n) in off {
        model.push_bits(e, *v, *n);
    }
    let offbits = model.len();
    model.push_bytes(e, &data);
    ctx.ops += 2 + off.len() as u64;
    if write {
        ctx.step(vec![format!("e={:?}", e), format!("word={:?}", word), "op=io_write".into(), "scale=512KiB".into()]);
        let (w, h) = AnyWriter::new(e, word, &WrBackend::Rec { refuse_at: None });
        let mut w = ManuallyDrop::new(w);
        for (v, n) in off {
            if !matches!(guard(|| w.write_bits(*v, *n)), Ok(Ok(_))) {
                return ctx.fail("C12.spurious_error", "write_bits failed".into());
            }
        }
        let staged = AlignedBytes::new(&data, (seed % 8) as usize);
        let sl: &[u8] = staged.get();
        let r = if all { guard(|| w.io_write_all(sl).map(|_| sl.len())) } else { guard(|| w.io_write(sl)) };
        match r {
            Ok(Ok(k)) => {
                ctx.ev(k as u64);
                if k != len {
                    return ctx.fail("C12.write_count", format!("io::Write::write of a {}-byte slice reported {} bytes", len, k));
                }
            }
            Ok(Err(er)) => return ctx.fail("C12.spurious_error", format!("io write of {} bytes failed: {}", len, er)),
            Err(p) => return ctx.fail("C12.panic", format!("io::Write::write of a {}-byte slice at bit offset {} panicked: {}", len, offbits, p)),
        }
        model.push_bits(e, 0x2B5, 10);
        match guard(|| {
            w.write_bits(0x2B5, 10)?;
            w.flush()
        }) {
            Ok(Ok(_)) => {}
            _ => return ctx.fail("C12.spurious_error", "write after the slice failed".into()),
        }
        model.pad_to_multiple(word.bits());
        let exp = model.to_bytes(e);
        let got = h.delivered_bytes();
        ctx.ev(crate::rng::fnv1a(&got));
        if got != exp {
            return ctx.fail(
                "C12.write_image",
                format!("after io::Write::write of a {}-byte slice at bit offset {} and a 10-bit marker: image vs expected: {}", len, offbits, first_diff(&got, &exp)),
            );
        }
        ctx.progressed = true;
        ctx.probe("c12.write_slice_512KiB");
        ctx.sig(&[1212, e as u64, word as u64, (offbits % word.bits()) as u64, (len % 8) as u64, all as u64]);
        let _ = guard(|| unsafe { ManuallyDrop::drop(&mut w) });
    } else {
        ctx.step(vec![format!("e={:?}", e), format!("reader={:?}", kind), "op=io_read".into(), "scale=512KiB".into()]);
        model.push_bits(e, 0xA5C3, 16);
        model.pad_to_multiple(kind.word_bits());
        let image = model.to_bytes(e);
        let (mut rd, _h) = AnyReader::new(e, kind, &RdBackend::MemStrict, &image);
        for (v, n) in off {
            match guard(|| rd.read_bits(*n)) {
                Ok(Ok(y)) if y == *v => {}
                _ => return ctx.fail("C12.read_bits", "fixed-width read before the byte read returned a wrong value".into()),
            }
        }
        let mut staged = AlignedBytes::new(&vec![0xEEu8; len], (seed % 8) as usize);
        let r = guard(|| rd.io_read(staged.get_mut()));
        let buf: Vec<u8> = staged.get().to_vec();
        match r {
            Ok(Ok(k)) => {
                ctx.ev(k as u64);
                ctx.ev(crate::rng::fnv1a(&buf));
                if k != len {
                    return ctx.fail("C12.io_read_count", format!("io::Read::read of a {}-byte buffer returned {}", len, k));
                }
                if buf != data {
                    return ctx.fail(
                        "C12.io_read_bytes",
                        format!("io::Read::read({} bytes) at bit {}: produced vs next stream bytes: {}", len, offbits, first_diff(&buf, &data)),
                    );
                }
            }
            Ok(Err(er)) => return ctx.fail("C12.spurious_error", format!("io read of {} bytes failed: {}", len, er)),
            Err(p) => return ctx.fail("C12.panic", format!("io::Read::read of a {}-byte buffer at bit offset {} panicked: {}", len, offbits, p)),
        }
        match guard(|| rd.read_bits(16)) {
            Ok(Ok(0xA5C3)) => {}
            other => return ctx.fail("C12.read_bits", format!("after io::Read::read({} bytes) the next 16 bits read {:?}, expected 0xa5c3", len, other)),
        }
        ctx.progressed = true;
        ctx.probe("c12.read_buffer_512KiB");
        ctx.sig(&[1213, e as u64, kind as u64, (offbits % kind.word_bits()) as u64, (len % 8) as u64]);
    }
}

#[derive(Clone, Debug, Serialize, Deserialize)]
pub struct S12 {
    pub e: En,
    pub mode: Mode12,
}

pub struct C12;

fn run_write(s: &S12, word: Wd, ops: &[WOp12], ctx: &mut Ctx) {
    let e = s.e;
    let wbits = word.bits();
    let (w, h) = AnyWriter::new(e, word, &WrBackend::Rec { refuse_at: None });
    let mut w = ManuallyDrop::new(w);
    let mut model = BitModel::new();
    let clean = CLEAN_ARGS.load(Ordering::Relaxed);
    let tags = |op: &str| vec![format!("e={:?}", e), format!("word={:?}", word), format!("op={}", op)];
    for (i, op) in ops.iter().enumerate() {
        ctx.ops += 1;
        match op {
            WOp12::Bits { v, n } => {
                ctx.step(tags("write_bits"));
                let v = if clean { crate::items::mask(*v, *n) } else { *v };
                match guard(|| w.write_bits(v, *n)) {
                    Ok(Ok(_)) => model.push_bits(e, v, *n),
                    Ok(Err(er)) => return ctx.fail("C12.spurious_error", format!("write_bits failed: {}", er)),
                    Err(p) => return ctx.fail("C12.panic", format!("op #{} write_bits panicked: {}", i, p)),
                }
            }
            WOp12::Unary { x } => {
                ctx.step(tags("write_unary"));
                match guard(|| w.write_unary(*x)) {
                    Ok(Ok(_)) => model.push_unary(*x),
                    Ok(Err(er)) => return ctx.fail("C12.spurious_error", format!("write_unary failed: {}", er)),
                    Err(p) => return ctx.fail("C12.panic", format!("op #{} write_unary panicked: {}", i, p)),
                }
            }
            WOp12::Flush => {
                ctx.step(tags("flush"));
                match guard(|| w.flush()) {
                    Ok(Ok(_)) => {
                        model.pad_to_multiple(wbits);
                    }
                    Ok(Err(er)) => return ctx.fail("C12.spurious_error", format!("flush failed: {}", er)),
                    Err(p) => return ctx.fail("C12.panic", format!("op #{} flush panicked: {}", i, p)),
                }
            }
            WOp12::Bytes { data, all, align } => {
                ctx.step(tags("io_write"));
                let staged = AlignedBytes::new(data, *align as usize);
                let data: &[u8] = staged.get();
                ctx.probe_if(*align != 0 && data.len() > 8, "c12.write_slice_at_unaligned_address");
                let off = model.len() % wbits;
                ctx.sig(&[12, e as u64, word as u64, off as u64, data.len().min(48) as u64, *all as u64]);
                ctx.probe_if(data.is_empty(), "c12.write_empty_slice");
                ctx.probe_if(data.len() % 8 != 0, "c12.write_len_not_multiple_of_8");
                ctx.probe_if(data.len() % word.bytes() != 0, "c12.write_len_not_multiple_of_word");
                ctx.probe_if(off % 8 != 0, "c12.write_at_unaligned_offset");
                let r = if *all {
                    guard(|| w.io_write_all(data).map(|_| data.len()))
                } else {
                    guard(|| w.io_write(data))
                };
                ctx.tr(|| format!("#{} io::Write::write({} bytes) at bit {} -> {:?}", i, data.len(), model.len(), r));
                match r {
                    Ok(Ok(k)) => {
                        ctx.ev(k as u64);
                        if k != data.len() {
                            return ctx.fail(
                                "C12.write_count",
                                format!("op #{} io::Write::write of a {}-byte slice reported {} bytes", i, data.len(), k),
                            );
                        }
                        model.push_bytes(e, data);
                        ctx.progressed = true;
                    }
                    Ok(Err(er)) => return ctx.fail("C12.spurious_error", format!("op #{} io write failed: {}", i, er)),
                    Err(p) => {
                        return ctx.fail(
                            "C12.panic",
                            format!(
                                "op #{} io::Write::write of a {}-byte slice at bit offset {} on a {:?} writer panicked: {}",
                                i,
                                data.len(),
                                model.len(),
                                word,
                                p
                            ),
                        )
                    }
                }
            }
        }
        // delivered words are a prefix of the expected image
        let delivered = h.delivered_bytes();
        let img = model.to_bytes(e);
        let whole = model.len() / wbits * (wbits / 8);
        if delivered.len() > whole || delivered[..] != img[..delivered.len()] {
            return ctx.fail(
                "C12.write_image",
                format!(
                    "after op #{} ({:?}): words delivered {:02x?} are not a prefix of the expected image {:02x?}",
                    i,
                    match op {
                        WOp12::Bytes { data, .. } => format!("io write of {:02x?}", data),
                        o => format!("{:?}", o),
                    },
                    delivered,
                    &img[..whole]
                ),
            );
        }
    }
    ctx.step(tags("close"));
    match guard(|| w.io_flush()) {
        Ok(Ok(())) => {}
        Ok(Err(er)) => return ctx.fail("C12.spurious_error", format!("io flush failed: {}", er)),
        Err(p) => return ctx.fail("C12.panic", format!("io flush panicked: {}", p)),
    }
    model.pad_to_multiple(wbits);
    let exp = model.to_bytes(e);
    let got = h.delivered_bytes();
    ctx.ev_bytes(&got);
    if got != exp {
        return ctx.fail("C12.write_image", format!("final image {:02x?} differs from the expected {:02x?}", got, exp));
    }
    let _ = guard(|| unsafe { ManuallyDrop::drop(&mut w) });
}

fn gen_slice(rng: &mut Rng) -> Vec<u8> {
    if rng.chance(1, 250) {
        // scale: a slice longer than 2^16 bytes (or just above 255 / 4096)
        let len = *rng.pick(&[256usize, 257, 4095, 4097, 65_535, 65_537, 70_001]);
        return (0..len).map(|_| rng.next() as u8).collect();
    }
    let len = match rng.below(8) {
        0 => 0,
        1 => rng.usize_range(1, 7),
        2 => 8,
        3 => *rng.pick(&[15usize, 16, 17, 24, 31, 32, 33, 40]),
        4 => rng.usize_range(41, 200),
        _ => rng.usize_range(0, 40),
    };
    (0..len).map(|_| rng.next() as u8).collect()
}

impl Family for C12 {
    type Scn = S12;
    const ID: &'static str = "C12";

    fn gen(rng: &mut Rng, _tier: Tier, index: u64) -> S12 {
        let e = if index % 2 == 0 { En::BE } else { En::LE };
        if index % 1500 == 11 || index % 1500 == 12 {
            let word = *rng.pick(&Wd::ALL);
            let kind = *rng.pick(&RdKind::ALL);
            let mut off = Vec::new();
            let mut left = rng.usize_range(0, 2 * word.bits().max(kind.word_bits()));
            while left > 0 {
                let n = left.min(rng.usize_range(1, 64));
                off.push((crate::items::mask(rng.next(), n), n));
                left -= n;
            }
            return S12 {
                e,
                mode: Mode12::Big {
                    write: rng.chance(1, 2),
                    word,
                    kind,
                    off,
                    len: *rng.pick(&BIG_LENS),
                    seed: rng.next(),
                    all: rng.chance(1, 2),
                },
            };
        }
        if (index / 2) % 2 == 0 {
            let word = Wd::ALL[((index / 4) % 5) as usize];
            let wbits = word.bits();
            let mut ops = Vec::new();
            // starting bit offset 0..=2W
            let mut off = rng.usize_range(0, 2 * wbits);
            while off > 0 {
                let n = off.min(rng.usize_range(1, 64));
                ops.push(WOp12::Bits { v: rng.next(), n });
                off -= n;
            }
            for _ in 0..rng.usize_range(1, 8) {
                ops.push(match rng.below(10) {
                    0..=5 => WOp12::Bytes {
                        data: gen_slice(rng),
                        all: rng.chance(1, 2),
                        align: if rng.chance(1, 2) { rng.below(8) as u8 } else { 0 },
                    },
                    6 | 7 => WOp12::Bits {
                        v: rng.next(),
                        n: rng.usize_range(0, 64),
                    },
                    8 => WOp12::Unary { x: rng.below(wbits as u64 + 3) },
                    _ => WOp12::Flush,
                });
            }
            S12 {
                e,
                mode: Mode12::Write { word, ops },
            }
        } else {
            let kind = RdKind::ALL[((index / 4) % 5) as usize];
            let wb = kind.word_bits();
            let nbytes = if rng.chance(1, 150) { 72_000 / (wb / 8) * (wb / 8) } else { (rng.usize_range(2, 48) * wb / 8).min(320) };
            let pi = rng.below(5) as usize;
            let image = gen_image(rng, PATTERNS[pi], nbytes);
            let bsel = rng.below(8);
            let backend = crate::p02::gen_rd_backend(rng, bsel, 0, 0);
            let zero_ext = backend.zero_extended();
            let total = nbytes * 8;
            let limit = if zero_ext { total + 3 * wb } else { total };
            let mut pos = 0usize;
            let mut ops = Vec::new();
            let off = rng.usize_range(0, 2 * wb).min(limit);
            let mut left = off;
            while left > 0 {
                let n = left.min(rng.usize_range(1, 64));
                ops.push(if rng.chance(1, 3) { ROp::Skip(n) } else { ROp::Bits(n) });
                left -= n;
                pos += n;
            }
            for _ in 0..rng.usize_range(1, 8) {
                let room = limit.saturating_sub(pos);
                match rng.below(10) {
                    0..=5 => {
                        let len = gen_slice(rng).len().min(room / 8);
                        ops.push(ROp::Bytes(len));
                        pos += 8 * len;
                    }
                    6 | 7 => {
                        let n = rng.usize_range(0, 64).min(room);
                        ops.push(ROp::Bits(n));
                        pos += n;
                    }
                    8 => {
                        let m = kind.max_peek().min(room);
                        if m > 0 {
                            ops.push(ROp::Peek(rng.usize_range(1, m)));
                        }
                    }
                    _ => {
                        let n = rng.usize_range(0, wb + 2).min(room);
                        ops.push(ROp::Skip(n));
                        pos += n;
                    }
                }
            }
            S12 {
                e,
                mode: Mode12::Read { kind, backend, image, ops },
            }
        }
    }

    fn exec(s: &S12, ctx: &mut Ctx) {
        match &s.mode {
            Mode12::Write { word, ops } => run_write(s, *word, ops, ctx),
            Mode12::Big { write, word, kind, off, len, seed, all } => run_big(s.e, *write, *word, *kind, off, *len, *seed, *all, ctx),
            Mode12::Read { kind, backend, image, ops } => {
                for op in ops {
                    if let ROp::Bytes(n) = op {
                        ctx.probe_if(*n == 0, "c12.read_empty_buffer");
                        ctx.probe_if(*n % 8 != 0, "c12.read_len_not_multiple_of_8");
                    }
                }
                exec_rops("C12", 12, s.e, *kind, backend, image, ops, ctx)
            }
        }
    }

    fn shrink(s: &S12) -> Vec<S12> {
        let mut out = Vec::new();
        match &s.mode {
            Mode12::Write { word, ops } => {
                for o in shrink_list(ops) {
                    out.push(S12 { e: s.e, mode: Mode12::Write { word: *word, ops: o } });
                }
                for (i, op) in ops.iter().enumerate() {
                    match op {
                        WOp12::Bytes { data, all, align } => {
                            if *align != 0 {
                                let mut o = ops.clone();
                                o[i] = WOp12::Bytes { data: data.clone(), all: *all, align: 0 };
                                out.push(S12 { e: s.e, mode: Mode12::Write { word: *word, ops: o } });
                            }
                            for d in shrink_list(data) {
                                let mut o = ops.clone();
                                o[i] = WOp12::Bytes { data: d, all: *all, align: *align };
                                out.push(S12 { e: s.e, mode: Mode12::Write { word: *word, ops: o } });
                                if out.len() > 300 {
                                    break;
                                }
                            }
                            if data.iter().any(|b| *b != 1) {
                                let mut o = ops.clone();
                                o[i] = WOp12::Bytes { data: vec![1; data.len()], all: *all, align: *align };
                                out.push(S12 { e: s.e, mode: Mode12::Write { word: *word, ops: o } });
                            }
                        }
                        WOp12::Bits { v, n } => {
                            for m in shrink_usize(*n) {
                                let mut o = ops.clone();
                                o[i] = WOp12::Bits { v: *v, n: m };
                                out.push(S12 { e: s.e, mode: Mode12::Write { word: *word, ops: o } });
                            }
                        }
                        _ => {}
                    }
                }
            }
            Mode12::Big { write, word, kind, off, len, seed, all } => {
                let mk = |off: Vec<(u64, usize)>, len: usize| S12 {
                    e: s.e,
                    mode: Mode12::Big { write: *write, word: *word, kind: *kind, off, len, seed: *seed, all: *all },
                };
                if !off.is_empty() {
                    out.push(mk(Vec::new(), *len));
                }
                for l in [524_288usize, 65_536 * 8 + 8, 1 << 16, 4096, 64, 8] {
                    if l < *len {
                        out.push(mk(off.clone(), l));
                    }
                }
            }
            Mode12::Read { kind, backend, image, ops } => {
                for o in shrink_list(ops) {
                    out.push(S12 {
                        e: s.e,
                        mode: Mode12::Read { kind: *kind, backend: backend.clone(), image: image.clone(), ops: o },
                    });
                }
                for (i, op) in ops.iter().enumerate() {
                    let alts: Vec<ROp> = match op {
                        ROp::Bytes(n) => shrink_usize(*n).into_iter().map(ROp::Bytes).collect(),
                        ROp::Bits(n) => shrink_usize(*n).into_iter().map(ROp::Bits).collect(),
                        ROp::Skip(n) => shrink_usize(*n).into_iter().map(ROp::Skip).collect(),
                        _ => vec![],
                    };
                    for a in alts {
                        let mut o = ops.clone();
                        o[i] = a;
                        out.push(S12 {
                            e: s.e,
                            mode: Mode12::Read { kind: *kind, backend: backend.clone(), image: image.clone(), ops: o },
                        });
                    }
                }
                if *backend != RdBackend::MemInf {
                    out.push(S12 {
                        e: s.e,
                        mode: Mode12::Read { kind: *kind, backend: RdBackend::MemInf, image: image.clone(), ops: ops.clone() },
                    });
                }
            }
        }
        out
    }

    fn rule() -> &'static str {
        "one case = (endianness, write mode: writer word u8..u128, starting bit offset 0..=2W, 1-8 ops among io::Write::write / write_all of a slice of length 0, 1-7, 8, 15-17, 24, 31-33, 40, 0-40 random, 41-200, and write_bits / write_unary / flush; read mode: reader {buffered u8..u64, unbuffered} over any backend, image of 5 patterns, starting offset 0..=2W, io::Read::read into buffers of the same lengths interleaved with reads, peeks, skips). distinct_nontrivial = distinct (endianness, word or reader, bit offset inside the word / measured buffer fill, slice length (capped), op kind) signatures Scale scenarios: one slice in 250 has 256 .. 70 001 bytes; one run in 750 writes one slice / reads into one buffer of 524 287, 524 288, 524 289, 524 296, 532 291, 1 048 576 or 1 048 583 pseudo-random bytes at a bit offset 0..=2W, followed by a marker."
    }

    fn components() -> (Vec<&'static str>, Vec<&'static str>) {
        (
            vec!["io::Write for BufBitWriter BE/LE (u8..u128)", "io::Read for BufBitReader BE/LE (u8..u64)", "io::Read for BitReader BE/LE"],
            vec!["recording word sink"],
        )
    }

    fn required_probes(_t: Tier) -> Vec<&'static str> {
        vec![
            "c12.write_slice_at_unaligned_address",
            "c12.write_empty_slice",
            "c12.write_len_not_multiple_of_8",
            "c12.write_len_not_multiple_of_word",
            "c12.write_at_unaligned_offset",
            "c12.read_empty_buffer",
            "c12.read_len_not_multiple_of_8",
            "c12.write_slice_512KiB",
            "c12.read_buffer_512KiB",
        ]
    }

    fn runs(t: Tier) -> u64 {
        match t {
            Tier::Quick => 3_000_000,
            Tier::Thorough => 200_000_000,
        }
    }
}
