//! Reference model of a bit stream, written from the documented contract in
//! `src/traits/mod.rs` (not from the implementation):
//!
//! * bit `i` of the stream lives in byte `i / 8`, at bit `7 - (i % 8)` for
//!   big-endian streams and at bit `i % 8` for little-endian streams;
//! * `write_bits(v, n)` appends the `n` low bits of `v`, most significant first
//!   (BE) or least significant first (LE);
//! * unary `x` is `x` zeros followed by a one.

use serde::{Deserialize, Serialize};

#[derive(Clone, Copy, PartialEq, Eq, Debug, Serialize, Deserialize, Hash, PartialOrd, Ord)]
pub enum En {
    BE,
    LE,
}

#[derive(Clone, Debug, Default, PartialEq, Eq)]
pub struct BitModel {
    /// One entry per stream bit, 0 or 1, in stream order.
    pub bits: Vec<u8>,
}

impl BitModel {
    pub fn new() -> Self {
        BitModel { bits: Vec::new() }
    }

    pub fn len(&self) -> usize {
        self.bits.len()
    }

    pub fn push_bits(&mut self, e: En, v: u64, n: usize) {
        assert!(n <= 64);
        match e {
            En::BE => {
                for i in (0..n).rev() {
                    self.bits.push(((v >> i) & 1) as u8);
                }
            }
            En::LE => {
                for i in 0..n {
                    self.bits.push(((v >> i) & 1) as u8);
                }
            }
        }
    }

    pub fn push_unary(&mut self, x: u64) {
        for _ in 0..x {
            self.bits.push(0);
        }
        self.bits.push(1);
    }

    /// Append the bytes of `data` as they must appear in the canonical image
    /// when written at the current bit position (stream order = byte order,
    /// inside a byte the canonical bit order of the endianness).
    pub fn push_bytes(&mut self, e: En, data: &[u8]) {
        for &b in data {
            for j in 0..8 {
                let bit = match e {
                    En::BE => (b >> (7 - j)) & 1,
                    En::LE => (b >> j) & 1,
                };
                self.bits.push(bit);
            }
        }
    }

    pub fn pad_to_multiple(&mut self, m: usize) -> usize {
        let r = self.bits.len() % m;
        if r == 0 {
            0
        } else {
            let pad = m - r;
            self.bits.resize(self.bits.len() + pad, 0);
            pad
        }
    }

    /// Canonical byte image (last byte zero padded).
    pub fn to_bytes(&self, e: En) -> Vec<u8> {
        let mut out = vec![0u8; self.bits.len().div_ceil(8)];
        for (i, &b) in self.bits.iter().enumerate() {
            if b != 0 {
                match e {
                    En::BE => out[i / 8] |= 1 << (7 - (i % 8)),
                    En::LE => out[i / 8] |= 1 << (i % 8),
                }
            }
        }
        out
    }

    pub fn from_bytes(e: En, bytes: &[u8]) -> Self {
        let mut bits = Vec::with_capacity(bytes.len() * 8);
        for &b in bytes {
            for j in 0..8 {
                bits.push(match e {
                    En::BE => (b >> (7 - j)) & 1,
                    En::LE => (b >> j) & 1,
                });
            }
        }
        BitModel { bits }
    }

    #[inline]
    pub fn bit(&self, i: usize) -> u8 {
        // zero extension beyond the end; strictness is the caller's business
        self.bits.get(i).copied().unwrap_or(0)
    }

    /// The value a fixed-width read of `n` bits at `pos` must return.
    pub fn get_bits(&self, e: En, pos: usize, n: usize) -> u64 {
        assert!(n <= 64);
        let mut v: u64 = 0;
        match e {
            En::BE => {
                for i in 0..n {
                    v = (v << 1) | self.bit(pos + i) as u64;
                }
            }
            En::LE => {
                for i in 0..n {
                    v |= (self.bit(pos + i) as u64) << i;
                }
            }
        }
        v
    }

    /// Bytes an `io::Read` of `len` bytes at `pos` must return.
    pub fn get_bytes(&self, e: En, pos: usize, len: usize) -> Vec<u8> {
        (0..len)
            .map(|k| {
                let mut b = 0u8;
                for j in 0..8 {
                    let bit = self.bit(pos + 8 * k + j);
                    match e {
                        En::BE => b |= bit << (7 - j),
                        En::LE => b |= bit << j,
                    }
                }
                b
            })
            .collect()
    }

    /// Number of zeros before the first one at or after `pos`, if any one exists
    /// before the end of the model.
    pub fn unary_at(&self, pos: usize) -> Option<u64> {
        let mut i = pos;
        while i < self.bits.len() {
            if self.bits[i] != 0 {
                return Some((i - pos) as u64);
            }
            i += 1;
        }
        None
    }
}

#[cfg(test)]
mod t {
    use super::*;
    #[test]
    fn layout() {
        let mut m = BitModel::new();
        m.push_bits(En::BE, 0b101, 3);
        m.push_unary(2);
        assert_eq!(m.to_bytes(En::BE), vec![0b1010_0100]);
        let mut m = BitModel::new();
        m.push_bits(En::LE, 0b101, 3);
        m.push_unary(2);
        assert_eq!(m.to_bytes(En::LE), vec![0b0010_0101]);
        assert_eq!(m.get_bits(En::LE, 0, 3), 0b101);
        assert_eq!(m.unary_at(3), Some(2));
    }
}
