//! "Scale" scenarios: a single unary part / zero run / bulk copy longer than 2^32
//! bits, i.e. streams beyond 512 MiB, simulated without the memory: the writer
//! talks to a recording stub that keeps only the non-zero words and a count
//! (`WrBackend::SparseRec`), the reader to a stub that serves a run of all-zero
//! words out of thin air (`RdBackend::Sparse`). Everything above the stubs is the
//! real library code, executed for real (hundreds of millions of word transfers).
//! Used by C01 (image), C02 (values), C03 (round trip) and C08 (copy) in about one
//! run out of 100 000.

use crate::bits::*;
use crate::fw::*;
use crate::model::{BitModel, En};
use crate::rng::Rng;
use serde::{Deserialize, Serialize};
use std::mem::ManuallyDrop;

pub const GIANT_EVERY: u64 = 100_000;

#[derive(Clone, Debug, PartialEq, Eq, Serialize, Deserialize)]
pub struct Giant {
    /// word size of the writer / of the reader (32, 64 or 128 bits; readers: 32 or 64)
    pub wword: Wd,
    pub rkind: RdKind,
    /// length of the zero run / unary part / quotient (>= 2^32 - 2)
    pub q: u64,
    /// 0 = unary, 1 = Rice with parameter `param`, 2 = Golomb with modulus `param`
    pub code: u8,
    pub param: u64,
    /// remainder for Rice / Golomb
    pub rem: u64,
    pub pre: Vec<(u64, usize)>,
    pub post: Vec<(u64, usize)>,
    /// C08: copy direction and how many bits beyond the run are copied
    pub copy_to: bool,
    pub extra: usize,
}

pub fn is_giant_index(index: u64) -> bool {
    index % GIANT_EVERY == 7
}

fn fields(rng: &mut Rng, n: usize) -> Vec<(u64, usize)> {
    (0..n)
        .map(|_| {
            let k = rng.usize_range(1, 64);
            let v = rng.next() & if k == 64 { u64::MAX } else { (1u64 << k) - 1 };
            (v, k)
        })
        .collect()
}

pub fn gen_giant(rng: &mut Rng) -> Giant {
    let wword = *rng.pick(&[Wd::U32, Wd::U64, Wd::U64, Wd::U128]);
    let rkind = match wword {
        Wd::U32 => RdKind::B32,
        Wd::U64 => *rng.pick(&[RdKind::B64, RdKind::U64]),
        _ => RdKind::B64,
    };
    let q = (1u64 << 32) - 2 + rng.below(140);
    let code = rng.below(3) as u8;
    let param = match code {
        1 => rng.range(0, 8),
        2 => rng.range(1, 40),
        _ => 0,
    };
    let rem = match code {
        1 => rng.next() & ((1u64 << param) - 1),
        2 => rng.below(param),
        _ => 0,
    };
    Giant {
        wword,
        rkind,
        q,
        code,
        param,
        rem,
        pre: {
            let n = rng.usize_range(0, 3);
            fields(rng, n)
        },
        post: {
            let n = rng.usize_range(1, 4);
            fields(rng, n)
        },
        copy_to: rng.chance(1, 2),
        extra: rng.usize_range(0, 40),
    }
}

pub fn shrink_giant(g: &Giant) -> Vec<Giant> {
    let mut out = Vec::new();
    if !g.pre.is_empty() {
        out.push(Giant { pre: Vec::new(), ..g.clone() });
    }
    if g.post.len() > 1 {
        out.push(Giant { post: g.post[..1].to_vec(), ..g.clone() });
    }
    if g.code != 0 {
        out.push(unary_only(g.clone()));
    }
    if g.extra != 0 {
        out.push(Giant { extra: 0, ..g.clone() });
    }
    out
}

fn word_of(chunk: &[u8]) -> u128 {
    // numeric value of a native-endian word (the simulator runs on little-endian hosts)
    let mut b = [0u8; 16];
    b[..chunk.len()].copy_from_slice(chunk);
    u128::from_le_bytes(b)
}

/// Non-zero words (index, value) and word count of the image P || 0^q || R.
pub fn expected_sparse(e: En, wbits: usize, p: &BitModel, q: u64, r: &BitModel) -> (u64, Vec<(u64, u128)>) {
    let wbytes = wbits / 8;
    let mut out = Vec::new();
    let mut pm = p.clone();
    pm.pad_to_multiple(wbits);
    for (i, c) in pm.to_bytes(e).chunks(wbytes).enumerate() {
        let w = word_of(c);
        if w != 0 {
            out.push((i as u64, w));
        }
    }
    let start = p.len() as u64 + q; // bit position where R starts
    let base = start / wbits as u64;
    let off = (start % wbits as u64) as usize;
    let mut rm = BitModel::new();
    rm.bits.resize(off, 0);
    rm.bits.extend_from_slice(&r.bits);
    rm.pad_to_multiple(wbits);
    let pw = (pm.len() / wbits) as u64;
    for (j, c) in rm.to_bytes(e).chunks(wbytes).enumerate() {
        let w = word_of(c);
        if w != 0 {
            let idx = base + j as u64;
            if idx < pw {
                // overlap with the prefix words cannot happen for q >= 2^32
                panic!("harness error: giant run overlaps the prefix");
            }
            out.push((idx, w));
        }
    }
    let total = (p.len() as u64 + q + r.len() as u64).div_ceil(wbits as u64);
    (total, out)
}

pub fn tags(e: En, g: &Giant, op: &str) -> Vec<String> {
    vec![
        format!("e={:?}", e),
        format!("word={:?}", g.wword),
        format!("reader={:?}", g.rkind),
        format!("op={}", op),
        "scale=2^32".to_string(),
    ]
}

fn value_of(g: &Giant) -> (Code, u64) {
    match g.code {
        1 => (Code::Rice(g.param as usize), (g.q << g.param) | g.rem),
        2 => (Code::Golomb(g.param), g.q * g.param + g.rem),
        _ => (Code::Unary, g.q),
    }
}

/// bits of the codeword that follow the unary part: C01 and C02 use the plain unary
/// code only (the terminating one); parametric codes are C03's round trip.
fn after_run(_e: En, g: &Giant) -> BitModel {
    assert!(g.code == 0, "harness error: image model is for the unary code only");
    let mut m = BitModel::new();
    m.bits.push(1);
    m
}

/// The scenario restricted to the unary code (C01, C02, C08).
pub fn unary_only(mut g: Giant) -> Giant {
    g.code = 0;
    g.param = 0;
    g.rem = 0;
    g
}

// ------------------------------------------------------------------ C01

/// Writer side: image of pre || code with a unary part of q >= 2^32-2 || post.
pub fn giant_write(pfx: &str, e: En, g: &Giant, ctx: &mut Ctx) {
    ctx.step(tags(e, g, "giant_write"));
    let (w, h) = AnyWriter::new(e, g.wword, &WrBackend::SparseRec);
    let mut w = ManuallyDrop::new(w);
    let mut p = BitModel::new();
    let (code, v) = value_of(g);
    let r = guard(|| {
        for (x, n) in &g.pre {
            w.write_bits(*x, *n)?;
        }
        w.write_code(code, 0, v)?;
        for (x, n) in &g.post {
            w.write_bits(*x, *n)?;
        }
        w.flush()
    });
    ctx.ops += 2 + g.pre.len() as u64 + g.post.len() as u64;
    match r {
        Ok(Ok(_)) => {}
        Ok(Err(er)) => return ctx.fail(&format!("{}.spurious_error", pfx), format!("scale scenario: write failed: {}", er)),
        Err(pm) => {
            return ctx.fail(
                &format!("{}.panic", pfx),
                format!("scale scenario: writing {:?} with a unary part of {} bits panicked: {}", code, g.q, pm),
            )
        }
    }
    for (x, n) in &g.pre {
        p.push_bits(e, *x, *n);
    }
    let mut rmod = after_run(e, g);
    for (x, n) in &g.post {
        rmod.push_bits(e, *x, *n);
    }
    let (count, nz) = expected_sparse(e, g.wword.bits(), &p, g.q, &rmod);
    let log = h.log.borrow();
    ctx.ev(log.count);
    ctx.progressed = true;
    ctx.probe("scale.giant_unary_written");
    ctx.sig(&[9001, e as u64, g.wword as u64, g.code as u64]);
    if log.count != count || log.nonzero != nz {
        let got = log.nonzero.clone();
        let c = log.count;
        drop(log);
        return ctx.fail(
            &format!("{}.final_image", pfx),
            format!(
                "scale scenario ({:?}, unary part of {} bits): the backend received {} words with non-zero words {:x?}; the canonical image has {} words with non-zero words {:x?}",
                code, g.q, c, got, count, nz
            ),
        );
    }
    drop(log);
    let _ = guard(|| unsafe { ManuallyDrop::drop(&mut w) });
}

// ------------------------------------------------------------------ C02 / C03

/// Image split for the sparse reader: (bytes of head words ++ tail words, head words, zero words).
pub fn sparse_stream(e: En, rbits: usize, p: &BitModel, q: u64, r: &BitModel) -> (Vec<u8>, usize, u64) {
    let mut head = p.clone();
    let hz = (rbits - head.len() % rbits) % rbits; // zeros that complete the last head word
    let hz = (hz as u64).min(q) as usize;
    head.bits.resize(head.len() + hz, 0);
    let head_words = head.len().div_ceil(rbits);
    head.pad_to_multiple(rbits);
    let rest = q - hz as u64;
    let zero_words = rest / rbits as u64;
    let rz = (rest % rbits as u64) as usize;
    let mut tail = BitModel::new();
    tail.bits.resize(rz, 0);
    tail.bits.extend_from_slice(&r.bits);
    tail.pad_to_multiple(rbits);
    // one spare word so that look-ahead at the end has data
    tail.bits.resize(tail.len() + rbits, 0);
    let mut bytes = head.to_bytes(e);
    bytes.extend_from_slice(&tail.to_bytes(e));
    (bytes, head_words, zero_words)
}

/// Reader side: pre fields, then a code whose unary part is a zero run of q bits, then post.
pub fn giant_read(pfx: &str, e: En, g: &Giant, ctx: &mut Ctx) {
    ctx.step(tags(e, g, "giant_read"));
    let mut p = BitModel::new();
    for (x, n) in &g.pre {
        p.push_bits(e, *x, *n);
    }
    let mut r = after_run(e, g);
    for (x, n) in &g.post {
        r.push_bits(e, *x, *n);
    }
    let rbits = g.rkind.word_bits();
    let (bytes, head_words, zero_words) = sparse_stream(e, rbits, &p, g.q, &r);
    let (mut rd, _h) = AnyReader::new(e, g.rkind, &RdBackend::Sparse { head_words, zero_words }, &bytes);
    let (code, v) = value_of(g);
    for (i, (x, n)) in g.pre.iter().enumerate() {
        match guard(|| rd.read_bits(*n)) {
            Ok(Ok(y)) if y == *x => {}
            Ok(other) => return ctx.fail(&format!("{}.read_bits", pfx), format!("scale scenario: pre field #{} read {:?}, expected {:#x}", i, other, x)),
            Err(pm) => return ctx.fail(&format!("{}.panic", pfx), format!("scale scenario: read_bits panicked: {}", pm)),
        }
    }
    ctx.ops += 1;
    match guard(|| rd.read_code(code, 0)) {
        Ok(Ok(y)) => {
            ctx.ev(y);
            if y != v {
                return ctx.fail(
                    &format!("{}.{}", pfx, if g.code == 0 { "read_unary" } else { "code_value" }),
                    format!("scale scenario: reading {:?} over a zero run of {} bits returned {}, the stream holds {}", code, g.q, y, v),
                );
            }
        }
        Ok(Err(er)) => return ctx.fail(&format!("{}.spurious_error", pfx), format!("scale scenario: read failed: {}", er)),
        Err(pm) => {
            return ctx.fail(
                &format!("{}.panic", pfx),
                format!("scale scenario: reading {:?} over a zero run of {} bits panicked: {}", code, g.q, pm),
            )
        }
    }
    for (i, (x, n)) in g.post.iter().enumerate() {
        match guard(|| rd.read_bits(*n)) {
            Ok(Ok(y)) if y == *x => {}
            Ok(other) => {
                return ctx.fail(
                    &format!("{}.read_bits", pfx),
                    format!("scale scenario: after the long run, post field #{} read {:?}, expected {:#x}", i, other, x),
                )
            }
            Err(pm) => return ctx.fail(&format!("{}.panic", pfx), format!("scale scenario: read_bits panicked: {}", pm)),
        }
    }
    ctx.progressed = true;
    ctx.probe("scale.giant_unary_read");
    ctx.sig(&[9002, e as u64, g.rkind as u64, g.code as u64]);
}

/// Round trip: write with the real writer into the sparse sink, rebuild a sparse
/// reader from what the sink received, read back.
pub fn giant_roundtrip(e: En, g: &Giant, ctx: &mut Ctx) {
    ctx.step(tags(e, g, "giant_roundtrip"));
    let (w, h) = AnyWriter::new(e, g.wword, &WrBackend::SparseRec);
    let mut w = ManuallyDrop::new(w);
    let (code, v) = value_of(g);
    let r = guard(|| {
        for (x, n) in &g.pre {
            w.write_bits(*x, *n)?;
        }
        w.write_code(code, 0, v)?;
        for (x, n) in &g.post {
            w.write_bits(*x, *n)?;
        }
        w.flush()
    });
    match r {
        Ok(Ok(_)) => {}
        Ok(Err(er)) => return ctx.fail("C03.write_error", format!("scale scenario: write failed: {}", er)),
        Err(pm) => return ctx.fail("C03.panic", format!("scale scenario: writing {:?} value {} panicked: {}", code, v, pm)),
    }
    let (count, nz) = {
        let l = h.log.borrow();
        (l.count, l.nonzero.clone())
    };
    let _ = guard(|| unsafe { ManuallyDrop::drop(&mut w) });
    // split what the sink received at its largest gap of zero words
    let wbytes = g.wword.bytes();
    let mut marks: Vec<u64> = vec![0];
    marks.extend(nz.iter().map(|x| x.0 + 1));
    let mut best = (0u64, 0u64); // (gap length, gap start)
    let mut prev_end = 0u64;
    for (idx, _) in &nz {
        if *idx >= prev_end && idx - prev_end > best.0 {
            best = (idx - prev_end, prev_end);
        }
        prev_end = idx + 1;
    }
    if count > prev_end && count - prev_end > best.0 {
        best = (count - prev_end, prev_end);
    }
    let (gap, gstart) = best;
    let gend = gstart + gap;
    if count - gap > 4096 {
        return ctx.fail("C03.write_extent", format!("scale scenario: the writer emitted {} words outside the zero run", count - gap));
    }
    let dense = |from: u64, to: u64| -> Vec<u8> {
        let mut out = vec![0u8; ((to - from) as usize) * wbytes];
        for (idx, val) in &nz {
            if *idx >= from && *idx < to {
                let o = (*idx - from) as usize * wbytes;
                out[o..o + wbytes].copy_from_slice(&val.to_le_bytes()[..wbytes]);
            }
        }
        out
    };
    let mut bytes = dense(0, gstart);
    let tailb = dense(gend, count);
    bytes.extend_from_slice(&tailb);
    bytes.extend_from_slice(&vec![0u8; 16]);
    let rbytes = g.rkind.word_bits() / 8;
    let head_words = gstart as usize * wbytes / rbytes;
    let zero_words = gap * wbytes as u64 / rbytes as u64;
    let (mut rd, _h2) = AnyReader::new(e, g.rkind, &RdBackend::Sparse { head_words, zero_words }, &bytes);
    for (i, (x, n)) in g.pre.iter().enumerate() {
        match guard(|| rd.read_bits(*n)) {
            Ok(Ok(y)) if y == *x => {}
            Ok(other) => return ctx.fail("C03.read_bits", format!("scale scenario: pre field #{} read {:?}, expected {:#x}", i, other, x)),
            Err(pm) => return ctx.fail("C03.panic", format!("scale scenario: read_bits panicked: {}", pm)),
        }
    }
    ctx.ops += 2;
    match guard(|| rd.read_code(code, 0)) {
        Ok(Ok(y)) => {
            ctx.ev(y);
            if y != v {
                return ctx.fail(
                    "C03.code_value",
                    format!("scale scenario: {:?} value {} (unary part of {} bits) read back as {}", code, v, g.q, y),
                );
            }
        }
        Ok(Err(er)) => return ctx.fail("C03.spurious_error", format!("scale scenario: reading {:?} back failed: {}", code, er)),
        Err(pm) => return ctx.fail("C03.panic", format!("scale scenario: reading {:?} back panicked: {}", code, pm)),
    }
    for (i, (x, n)) in g.post.iter().enumerate() {
        match guard(|| rd.read_bits(*n)) {
            Ok(Ok(y)) if y == *x => {}
            Ok(other) => {
                return ctx.fail(
                    "C03.read_bits",
                    format!("scale scenario: after {:?} value {}, sentinel #{} read {:?}, expected {:#x}", code, v, i, other, x),
                )
            }
            Err(pm) => return ctx.fail("C03.panic", format!("scale scenario: read_bits panicked: {}", pm)),
        }
    }
    ctx.progressed = true;
    ctx.probe("scale.giant_roundtrip");
    ctx.sig(&[9003, e as u64, g.wword as u64, g.rkind as u64, g.code as u64]);
}

// ------------------------------------------------------------------ C08

/// Copy of q + 1 + extra bits (more than 2^32) from a sparse source to a sparse sink.
pub fn giant_copy(e: En, g: &Giant, ctx: &mut Ctx) {
    ctx.step(tags(e, g, if g.copy_to { "giant_copy_to" } else { "giant_copy_from" }));
    // source: pre || 0^q || 1 || post
    let mut p = BitModel::new();
    for (x, n) in &g.pre {
        p.push_bits(e, *x, *n);
    }
    let mut r = BitModel::new();
    r.bits.push(1);
    for (x, n) in &g.post {
        r.push_bits(e, *x, *n);
    }
    let rbits = g.rkind.word_bits();
    let (bytes, head_words, zero_words) = sparse_stream(e, rbits, &p, g.q, &r);
    let (mut rd, _h) = AnyReader::new(e, g.rkind, &RdBackend::Sparse { head_words, zero_words }, &bytes);
    for (x, n) in &g.pre {
        match guard(|| rd.read_bits(*n)) {
            Ok(Ok(y)) if y == *x => {}
            _ => return, // reader problems are C02's business
        }
    }
    let extra = g.extra.min(r.len() - 1);
    let n = g.q + 1 + extra as u64;
    // destination: a few bits already written
    let (w, h) = AnyWriter::new(e, g.wword, &WrBackend::SparseRec);
    let mut w = ManuallyDrop::new(w);
    let dpre: Vec<(u64, usize)> = g.post.iter().take(2).cloned().collect();
    let mut dp = BitModel::new();
    for (x, k) in &dpre {
        if !matches!(guard(|| w.write_bits(*x, *k)), Ok(Ok(_))) {
            return;
        }
        dp.push_bits(e, *x, *k);
    }
    ctx.ops += 1;
    let res = if g.copy_to {
        guard(|| rd.copy_to(&mut w, n))
    } else {
        guard(|| w.copy_from(&mut rd, n))
    };
    match res {
        Ok(Ok(())) => {}
        Ok(Err(er)) => return ctx.fail("C08.spurious_error", format!("scale scenario: copy of {} bits failed: {}", n, er)),
        Err(pm) => return ctx.fail("C08.panic", format!("scale scenario: copy of {} bits panicked: {}", n, pm)),
    }
    // marker and flush
    match guard(|| {
        w.write_bits(0b1011, 4)?;
        w.flush()
    }) {
        Ok(Ok(_)) => {}
        _ => return ctx.fail("C08.spurious_error", "scale scenario: write after the copy failed".to_string()),
    }
    let mut rr = BitModel::new();
    rr.bits.extend_from_slice(&r.bits[..1 + extra]);
    rr.push_bits(e, 0b1011, 4);
    let (count, nz) = expected_sparse(e, g.wword.bits(), &dp, g.q, &rr);
    {
        let log = h.log.borrow();
        ctx.ev(log.count);
        if log.count != count || log.nonzero != nz {
            let got = log.nonzero.clone();
            let c = log.count;
            drop(log);
            return ctx.fail(
                "C08.dest_image",
                format!(
                    "scale scenario: after a copy of {} bits the destination received {} words with non-zero words {:x?}; expected {} words with non-zero words {:x?}",
                    n, c, got, count, nz
                ),
            );
        }
    }
    let _ = guard(|| unsafe { ManuallyDrop::drop(&mut w) });
    // the source continues exactly after the copied bits
    let rest = &r.bits[1 + extra..];
    let mut pos = 0usize;
    while pos < rest.len() {
        let k = (rest.len() - pos).min(57);
        let mut m = BitModel::new();
        m.bits.extend_from_slice(&rest[pos..pos + k]);
        let exp = m.get_bits(e, 0, k);
        match guard(|| rd.read_bits(k)) {
            Ok(Ok(y)) if y == exp => {}
            Ok(other) => {
                return ctx.fail(
                    "C08.read_bits",
                    format!("scale scenario: after a copy of {} bits the source read {:?}, expected {:#x}", n, other, exp),
                )
            }
            Err(pm) => return ctx.fail("C08.panic", format!("scale scenario: read after the copy panicked: {}", pm)),
        }
        pos += k;
    }
    ctx.progressed = true;
    ctx.probe("scale.giant_copy");
    ctx.sig(&[9008, e as u64, g.wword as u64, g.rkind as u64, g.copy_to as u64]);
}

// ------------------------------------------------------------------ C07 / C11: huge positions

/// A stream of up to 2^62 bits: real head words, a run of zero words served by the
/// sparse stub (directly, or as bytes underneath the real WordAdapter), real tail words.
#[derive(Clone, Debug, PartialEq, Eq, Serialize, Deserialize)]
pub struct HugeSeek {
    pub kind: RdKind,
    /// None: sparse word backend; Some(None): WordAdapter over sparse bytes;
    /// Some(Some(c)): WordAdapter over BufReader(c) over sparse bytes
    pub adapter: Option<Option<usize>>,
    pub head_words: usize,
    pub tail_words: usize,
    pub zero_words: u64,
    pub seed: u64,
    pub ops: Vec<HsOp>,
}

#[derive(Clone, Debug, PartialEq, Eq, Serialize, Deserialize)]
pub enum HsOp {
    /// region 0: from the start; 1: from the start of the tail; 2: from the middle of
    /// the zero run; 3: back from the end
    Seek { region: u8, off: u64 },
    Bits(usize),
    Unary,
    Skip(u64),
}

pub fn gen_huge_seek(rng: &mut Rng, kind: RdKind, long_skip: bool) -> HugeSeek {
    let w = kind.word_bits() as u64;
    let k = *rng.pick(&[32u32, 32, 33, 35, 40, 48, 56, 62]);
    let zero_words = if long_skip { (1u64 << 32) / w + rng.below(5) } else { (1u64 << k) / w + rng.below(1000) };
    let head_words = rng.usize_range(0, 6);
    let tail_words = rng.usize_range(1, 8);
    let mut ops = Vec::new();
    for _ in 0..rng.usize_range(2, 12) {
        ops.push(match rng.below(10) {
            0..=4 => HsOp::Seek {
                region: rng.below(4) as u8,
                off: if rng.chance(1, 3) { rng.below(3) * w } else { rng.below(3 * w + 70) },
            },
            5..=7 => HsOp::Bits(rng.usize_range(0, 64)),
            8 => HsOp::Unary,
            _ => HsOp::Skip(rng.below(2 * w + 3)),
        });
    }
    if long_skip {
        // from the head across the whole zero run
        let at = rng.usize_range(0, ops.len());
        ops.insert(at, HsOp::Skip(zero_words * w + rng.below(w + 1)));
        ops.insert(at, HsOp::Seek { region: 0, off: rng.below(head_words as u64 * w + 1) });
    }
    HugeSeek {
        kind,
        adapter: match rng.below(3) {
            0 => None,
            1 => Some(None),
            _ => Some(Some(*rng.pick(&[1usize, 7, 64, 4096]))),
        },
        head_words,
        tail_words,
        zero_words,
        seed: rng.next(),
        ops,
    }
}

pub fn shrink_huge_seek(g: &HugeSeek) -> Vec<HugeSeek> {
    let mut out = Vec::new();
    for ops in shrink_list(&g.ops) {
        out.push(HugeSeek { ops, ..g.clone() });
    }
    if g.adapter.is_some() {
        out.push(HugeSeek { adapter: None, ..g.clone() });
    }
    for z in [0u64, 1 << 20, (1u64 << 32) / g.kind.word_bits() as u64] {
        if z < g.zero_words {
            out.push(HugeSeek { zero_words: z, ..g.clone() });
        }
    }
    out
}

struct HugeModel {
    head: BitModel,
    tail: BitModel,
    zeros: u64,
}

impl HugeModel {
    fn total(&self) -> u64 {
        self.head.len() as u64 + self.zeros + self.tail.len() as u64
    }
    fn bit(&self, p: u64) -> u8 {
        let h = self.head.len() as u64;
        if p < h {
            self.head.bits[p as usize]
        } else if p < h + self.zeros {
            0
        } else {
            self.tail.bits[(p - h - self.zeros) as usize]
        }
    }
    fn get_bits(&self, e: En, p: u64, n: usize) -> u64 {
        let mut m = BitModel::new();
        for i in 0..n as u64 {
            m.bits.push(self.bit(p + i));
        }
        m.get_bits(e, 0, n)
    }
    /// (zeros, found) from p: length of the zero run and whether a one terminates it
    fn unary(&self, p: u64) -> Option<u64> {
        let h = self.head.len() as u64;
        let mut q = p;
        while q < self.total() {
            if q >= h && q < h + self.zeros {
                q = h + self.zeros;
                continue;
            }
            if self.bit(q) == 1 {
                return Some(q - p);
            }
            q += 1;
        }
        None
    }
}

pub fn huge_seek(pfx: &str, e: En, g: &HugeSeek, ctx: &mut Ctx) {
    let w = g.kind.word_bits();
    let mut r = Rng::new(g.seed);
    let nbytes = (g.head_words + g.tail_words) * w / 8;
    let bytes: Vec<u8> = (0..nbytes).map(|_| r.next() as u8).collect();
    let hb = g.head_words * w / 8;
    let model = HugeModel {
        head: BitModel::from_bytes(e, &bytes[..hb]),
        tail: BitModel::from_bytes(e, &bytes[hb..]),
        zeros: g.zero_words * w as u64,
    };
    let backend = match g.adapter {
        None => RdBackend::Sparse { head_words: g.head_words, zero_words: g.zero_words },
        Some(buf) => RdBackend::SparseAdapter { head_words: g.head_words, zero_words: g.zero_words, buf },
    };
    let (mut rd, _h) = AnyReader::new(e, g.kind, &backend, &bytes);
    let total = model.total();
    let mut pos: u64 = 0;
    let base = vec![format!("e={:?}", e), format!("reader={:?}", g.kind), format!("backend={}", backend.name()), "scale=huge_positions".to_string()];
    for (i, op) in g.ops.iter().enumerate() {
        ctx.ops += 1;
        let mut t = base.clone();
        match op {
            HsOp::Seek { region, off } => {
                t.push("op=set_bit_pos".into());
                ctx.step(t);
                let target = match region {
                    0 => (*off).min(total),
                    1 => (model.head.len() as u64 + model.zeros + off).min(total),
                    2 => (model.head.len() as u64 + model.zeros / 2 + off).min(total),
                    _ => total - (*off).min(total),
                };
                match guard(|| rd.set_bit_pos(target)) {
                    Ok(Ok(())) => pos = target,
                    Ok(Err(er)) => {
                        return ctx.fail(
                            &format!("{}.seek_refused", pfx),
                            format!("op #{} set_bit_pos({}) on a stream of {} bits failed: {}", i, target, total, er),
                        )
                    }
                    Err(pm) => return ctx.fail(&format!("{}.panic", pfx), format!("op #{} set_bit_pos({}) panicked: {}", i, target, pm)),
                }
                ctx.cover("huge.seek_log2", 64 - target.leading_zeros() as u64);
            }
            HsOp::Bits(n) => {
                if pos + *n as u64 > total {
                    continue;
                }
                t.push("op=read_bits".into());
                ctx.step(t);
                let exp = model.get_bits(e, pos, *n);
                match guard(|| rd.read_bits(*n)) {
                    Ok(Ok(v)) => {
                        ctx.ev(v);
                        if v != exp {
                            return ctx.fail(
                                &format!("{}.value_after_seek", pfx),
                                format!("op #{} read_bits({}) at bit {} returned {:#x}, the stream holds {:#x}", i, n, pos, v, exp),
                            );
                        }
                        pos += *n as u64;
                    }
                    Ok(Err(er)) => return ctx.fail(&format!("{}.spurious_error", pfx), format!("op #{} read_bits({}) at bit {} of {} failed: {}", i, n, pos, total, er)),
                    Err(pm) => return ctx.fail(&format!("{}.panic", pfx), format!("op #{} read_bits({}) at bit {} panicked: {}", i, n, pos, pm)),
                }
            }
            HsOp::Unary => {
                // only inside the head or the tail (no long runs here)
                let Some(z) = model.unary(pos) else { continue };
                if z > 4096 {
                    continue;
                }
                t.push("op=read_unary".into());
                ctx.step(t);
                match guard(|| rd.read_unary()) {
                    Ok(Ok(v)) => {
                        ctx.ev(v);
                        if v != z {
                            return ctx.fail(
                                &format!("{}.value_after_seek", pfx),
                                format!("op #{} read_unary at bit {} returned {}, the stream holds {}", i, pos, v, z),
                            );
                        }
                        pos += z + 1;
                    }
                    Ok(Err(er)) => return ctx.fail(&format!("{}.spurious_error", pfx), format!("op #{} read_unary at bit {} failed: {}", i, pos, er)),
                    Err(pm) => return ctx.fail(&format!("{}.panic", pfx), format!("op #{} read_unary at bit {} panicked: {}", i, pos, pm)),
                }
            }
            HsOp::Skip(n) => {
                if pos + n > total || *n > usize::MAX as u64 {
                    continue;
                }
                t.push("op=skip_bits".into());
                ctx.step(t);
                match guard(|| rd.skip_bits(*n as usize)) {
                    Ok(Ok(())) => pos += n,
                    Ok(Err(er)) => return ctx.fail(&format!("{}.spurious_error", pfx), format!("op #{} skip_bits({}) at bit {} failed: {}", i, n, pos, er)),
                    Err(pm) => return ctx.fail(&format!("{}.panic", pfx), format!("op #{} skip_bits({}) at bit {} panicked: {}", i, n, pos, pm)),
                }
                ctx.probe_if(*n >= 1 << 32, "scale.skip_2^32");
            }
        }
        match guard(|| rd.bit_pos()) {
            Ok(Ok(p)) => {
                ctx.ev(p);
                if p != pos {
                    return ctx.fail(
                        &format!("{}.bit_pos", pfx),
                        format!("after op #{} ({:?}) bit_pos() = {} but {} stream bits precede the next bit", i, op, p, pos),
                    );
                }
            }
            Ok(Err(er)) => return ctx.fail(&format!("{}.spurious_error", pfx), format!("bit_pos failed after op #{}: {}", i, er)),
            Err(pm) => return ctx.fail(&format!("{}.panic", pfx), format!("bit_pos panicked after op #{}: {}", i, pm)),
        }
        ctx.progressed = true;
        ctx.probe_if(pos >= 1 << 32, "scale.position_above_2^32");
        ctx.sig(&[9007, e as u64, g.kind as u64, g.adapter.is_some() as u64, (pos % w as u64), 64 - pos.leading_zeros() as u64]);
    }
}
