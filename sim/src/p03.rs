//! C03 — every instantaneous code round-trips at any position, in any
//! configuration.
//!
//! Two parties: a writer "node" (REAL BufBitWriter, any word size, memory or
//! WordAdapter over SimDisk with benign short-write/Interrupted faults) and a
//! reader "node" (REAL BufBitReader u8..u64 / BitReader over any backend, device
//! backends with benign read faults) with independently chosen configurations
//! exchange a byte image. Items: every code x parameter x value class, separated
//! by raw sentinel fields, preceded by an arbitrary bit offset 0..=2W+1.
//! Oracle: value equality, and the reader's position after item i equals the
//! measured end of item i in the writer's real output (observed through the
//! correct decoding of everything that follows, never through bit_pos or
//! returned lengths).

use crate::bits::*;
use crate::fw::*;
use crate::items::*;
use crate::model::En;
use crate::p02::gen_rd_backend;
use crate::rng::Rng;
use crate::rsim::*;
use crate::simdisk::{Fault, FaultPlan};
use serde::{Deserialize, Serialize};

#[derive(Clone, Debug, Serialize, Deserialize)]
pub struct S03 {
    pub e: En,
    pub wword: Wd,
    pub wbackend: WrBackend,
    pub rkind: RdKind,
    pub rbackend: RdBackend,
    pub offset: Vec<(u64, usize)>,
    pub elems: Vec<Elem>,
    /// scale scenario (zero run / unary part / copy of 2^32 bits over the sparse stubs)
    #[serde(default)]
    pub giant: Option<crate::giant::Giant>,
}

pub struct C03;

pub fn table_tag(code: Code, rtab: u8) -> String {
    let t = code.rtables(rtab);
    if t.is_empty() {
        "tables=none".to_string()
    } else {
        format!("tables={}", t.join("+"))
    }
}

impl Family for C03 {
    type Scn = S03;
    const ID: &'static str = "C03";

    fn gen(rng: &mut Rng, _tier: Tier, index: u64) -> S03 {
        let e = if index % 2 == 0 { En::BE } else { En::LE };
        let wword = Wd::ALL[((index / 2) % 5) as usize];
        let rkind = RdKind::ALL[((index / 10) % 5) as usize];
        if crate::giant::is_giant_index(index) {
            // (the index selects the endianness above: draw it anew, giant indices are all odd)
            let e = if rng.chance(1, 2) { En::BE } else { En::LE };
            let g = crate::giant::gen_giant(rng);
            return S03 {
                e,
                wword: g.wword,
                wbackend: WrBackend::SparseRec,
                rkind: g.rkind,
                rbackend: RdBackend::MemStrict,
                offset: Vec::new(),
                elems: Vec::new(),
                giant: Some(g),
            };
        }
        let wb = rkind.word_bits();
        let off_bits = rng.usize_range(0, 2 * wb + 1);
        let mut offset = Vec::new();
        let mut left = off_bits;
        while left > 0 {
            let n = left.min(rng.usize_range(1, 64));
            offset.push((mask(rng.next(), n), n));
            left -= n;
        }
        let n = match rng.below(3) {
            0 => rng.usize_range(1, 3),
            _ => rng.usize_range(2, 14),
        };
        let elems = gen_elems(rng, n, false);
        let wbackend = if rng.chance(2, 3) {
            WrBackend::Vec
        } else {
            let mut plan = FaultPlan::none();
            let rate = rng.below(31);
            for c in 0..400 {
                if rng.below(100) < rate {
                    plan.at.push((
                        c,
                        if rng.chance(1, 3) {
                            Fault::Interrupted
                        } else {
                            Fault::Short(rng.usize_range(1, 15))
                        },
                    ));
                }
            }
            WrBackend::Adapter { plan }
        };
        let rate = if rng.chance(1, 2) { rng.below(31) } else { 0 };
        let sel = rng.below(8);
        let rbackend = gen_rd_backend(rng, sel, rate, 600);
        let mut elems = elems;
        // u8 reader + decoding tables is a recorded known finding; over a zero-extended
        // backend its garbage reads can additionally spin on the infinite zero tail
        // (documented), so that combination is only exercised on strict backends.
        // The configuration replay (C19) leaves the known finding out altogether.
        if rkind == RdKind::B8
            && (rbackend.zero_extended() || crate::p01::CLEAN_ARGS.load(std::sync::atomic::Ordering::Relaxed))
        {
            // configuration replay (C19): leave out the recorded known finding (u8 reader +
            // decoding tables), whose wrap-around is profile dependent by nature
            for el in elems.iter_mut() {
                if let Elem::Code { code, rtab, .. } = el {
                    let mut t = *rtab % code.n_rtabs();
                    while !code.rtables(t).is_empty() {
                        t = (t + 1) % code.n_rtabs();
                    }
                    *rtab = t;
                }
            }
        }
        S03 {
            e,
            wword,
            wbackend,
            rkind,
            rbackend,
            offset,
            elems,
            giant: None,
        }
    }

    fn exec(s: &S03, ctx: &mut Ctx) {
        if let Some(g) = &s.giant {
            return crate::giant::giant_roundtrip(s.e, g, ctx);
        }
        let base = vec![
            format!("e={:?}", s.e),
            format!("wword={:?}", s.wword),
        ];
        ctx.step(base.clone());
        let w = match write_stream(s.e, s.wword, &s.wbackend, &s.offset, &s.elems, ctx) {
            Ok(w) => w,
            Err((o, d)) => return ctx.fail(&format!("C03.{}", o), d),
        };
        // consistency of measured extents with the size of the real output
        let total = *w.starts.last().unwrap();
        let exp_bytes = total.div_ceil(s.wword.bits()) * s.wword.bytes();
        if w.bytes.len() != exp_bytes {
            return ctx.fail(
                "C03.write_extent",
                format!(
                    "the writer's output has {} bytes but the codewords measured one by one add up to {} bits ({} bytes after padding): a codeword depends on where it is written",
                    w.bytes.len(),
                    total,
                    exp_bytes
                ),
            );
        }
        ctx.ev_bytes(&w.bytes);
        let mut sim = RSim::new("C03", s.e, s.rkind, &s.rbackend, &w.bytes);
        // the pre-offset
        for (k, (_v, n)) in s.offset.iter().enumerate() {
            ctx.step(sim.tags("offset_read_bits"));
            match sim.step(ctx, k, &ROp::Bits(*n)) {
                StepOut::Ok => {}
                _ => {
                    sim.harvest_faults(ctx);
                    return;
                }
            }
        }
        let mut table_seen = false;
        for (i, el) in s.elems.iter().enumerate() {
            if let Elem::Code { code, rtab, .. } = el {
                if !code.rtables(*rtab).is_empty() {
                    table_seen = true;
                }
            }
            let op = match el {
                Elem::Raw { n, .. } => ROp::Bits(*n),
                Elem::Code { code, rtab, v, .. } => ROp::Code {
                    code: *code,
                    tab: *rtab,
                    exp: Some((*v, w.lens[i])),
                },
            };
            let mut t = sim.tags(&op.name());
            if let Elem::Code { code, rtab, .. } = el {
                t.push(table_tag(*code, *rtab));
                if let Some(f) = sim.fill() {
                    ctx.probe_if(f > s.rkind.word_bits(), "c03.code_read_fill_above_word");
                }
                ctx.sig(&[3, s.e as u64, s.rkind as u64, s.wword as u64, code_class(*code), (*rtab % code.n_rtabs()) as u64, (w.lens[i].min(130)) as u64]);
            }
            t.push(format!("table_read_seen={}", if table_seen { "yes" } else { "no" }));
            ctx.step(t);
            if sim.pos != w.starts[i] {
                return ctx.fail("HARNESS.panic", format!("position bookkeeping: {} vs {}", sim.pos, w.starts[i]));
            }
            match sim.step(ctx, i, &op) {
                StepOut::Ok => {}
                _ => break,
            }
        }
        // "leaves the reader exactly at the end of the codeword": after the last element nothing
        // follows that could reveal a wrong position, so it is asked for directly
        if !ctx.failed() && !sim.dead && sim.pos == *w.starts.last().unwrap() {
            let mut t = sim.tags("bit_pos_at_end");
            t.push(format!("table_read_seen={}", if table_seen { "yes" } else { "no" }));
            ctx.step(t);
            ctx.probe("c03.final_position_checked");
            let _ = sim.step(ctx, s.elems.len(), &ROp::BitPos);
        }
        sim.harvest_faults(ctx);
    }

    fn shrink(s: &S03) -> Vec<S03> {
        let mut out = Vec::new();
        if let Some(g) = &s.giant {
            for g2 in crate::giant::shrink_giant(g) {
                out.push(S03 { giant: Some(g2), ..s.clone() });
            }
            return out;
        }
        for elems in shrink_list(&s.elems) {
            out.push(S03 { elems, ..s.clone() });
        }
        for offset in shrink_list(&s.offset) {
            out.push(S03 { offset, ..s.clone() });
        }
        for (i, (v, n)) in s.offset.iter().enumerate() {
            for m in shrink_usize(*n) {
                let mut t = s.clone();
                t.offset[i] = (mask(*v, m), m);
                out.push(t);
            }
        }
        for (i, el) in s.elems.iter().enumerate() {
            match el {
                Elem::Code { code, wtab, rtab, v } => {
                    for u in shrink_u64(*v) {
                        let mut t = s.clone();
                        t.elems[i] = Elem::Code { code: *code, wtab: *wtab, rtab: *rtab, v: u };
                        out.push(t);
                    }
                    if *wtab != 0 {
                        let mut t = s.clone();
                        t.elems[i] = Elem::Code { code: *code, wtab: 0, rtab: *rtab, v: *v };
                        out.push(t);
                    }
                }
                Elem::Raw { v, n } => {
                    for m in shrink_usize(*n) {
                        let mut t = s.clone();
                        t.elems[i] = Elem::Raw { v: mask(*v, m), n: m };
                        out.push(t);
                    }
                }
            }
        }
        if s.wbackend != WrBackend::Vec {
            out.push(S03 { wbackend: WrBackend::Vec, ..s.clone() });
        }
        if s.rbackend != RdBackend::MemInf {
            out.push(S03 { rbackend: RdBackend::MemInf, ..s.clone() });
            out.push(S03 { rbackend: RdBackend::MemStrict, ..s.clone() });
        }
        if s.wword != Wd::U64 {
            out.push(S03 { wword: Wd::U64, ..s.clone() });
        }
        out
    }

    fn scenario_tags(s: &S03) -> Vec<String> {
        let tab = s.elems.iter().any(|el| matches!(el, Elem::Code { code, rtab, .. } if !code.rtables(*rtab).is_empty()));
        vec![
            format!("reader={:?}", s.rkind),
            format!("table_read_seen={}", if tab { "yes" } else { "no" }),
        ]
    }

    fn long_running(s: &S03) -> bool {
        s.giant.is_some()
    }

    fn rule() -> &'static str {
        "one case = (endianness, writer word u8..u128, writer medium {vector, WordAdapter over SimDisk with benign short-write/Interrupted faults}, reader {buffered u8..u64, unbuffered}, reader backend (6 kinds, device ones with benign read faults), bit offset 0..=2W+1, 1-14 items each = (code among unary/gamma/delta/omega/zeta_k k=1..63/pi_k,exp-Golomb_k,Rice_k k=0..63/Golomb_b,minimal-binary_u with b,u in 1..2^64/VByte BE,LE; value among small, 2^i-1,2^i,2^i+1, domain maximum, random bit length; write-side and read-side method variant incl. table options and parameterless defaults), half of them followed by a raw sentinel of random width). distinct_nontrivial = distinct (endianness, reader, writer word, code class, read variant, codeword length) signatures Scale scenarios: one run in 200-400 has several hundred operations or a zero run / unary part / copy / skip / slice above 2^16 bits; one run in 100 000 (sim/src/giant.rs) has a unary / Rice / Golomb codeword with a unary part of 2^32-2 .. 2^32+137 bits written into a sparse recording sink and read back from a sparse source rebuilt from what the sink received."
    }

    fn components() -> (Vec<&'static str>, Vec<&'static str>) {
        (
            vec!["all code read/write traits of src/codes", "BufBitWriter u8..u128", "BufBitReader u8..u64", "BitReader", "memory word backends", "WordAdapter", "std BufReader"],
            vec!["SimDisk (benign faults)", "sparse recording word sink and sparse zero-run word source (scale scenarios)"],
        )
    }

    fn required_probes(_t: Tier) -> Vec<&'static str> {
        vec![
            "c03.final_position_checked",
            "scale.giant_roundtrip",]
    }

    fn runs(t: Tier) -> u64 {
        match t {
            Tier::Quick => 2_000_000,
            Tier::Thorough => 150_000_000,
        }
    }

    fn assumptions() -> Vec<&'static str> {
        vec![
            "codeword extents are measured from the real writer's output (marker bit), assuming C01 (image is a pure function of the bits written)",
            "unary parts are bounded to 2000 zeros",
        ]
    }
}

pub fn code_class(c: Code) -> u64 {
    match c {
        Code::Unary => 0,
        Code::Gamma => 1,
        Code::Delta => 2,
        Code::Omega => 3,
        Code::Zeta(k) => 100 + k as u64,
        Code::Pi(k) => 200 + k as u64,
        Code::Golomb(b) => 300 + (64 - b.leading_zeros()) as u64,
        Code::Rice(k) => 400 + k as u64,
        Code::ExpGolomb(k) => 500 + k as u64,
        Code::MinBin(u) => 600 + (64 - u.leading_zeros()) as u64,
        Code::VByteBe => 4,
        Code::VByteLe => 5,
    }
}
