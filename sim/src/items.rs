//! Streams of code items and raw sentinel fields: generation, writing with a
//! real writer, and measurement of codeword extents from the writer's real
//! output (a marker bit written after the codeword into a scratch writer —
//! independent of returned lengths and of the length functions).

use crate::bits::*;
use crate::fw::*;
use crate::model::{BitModel, En};
use crate::rng::Rng;
use serde::{Deserialize, Serialize};
use std::mem::ManuallyDrop;

pub const MAX_QUOT: u64 = 2000;

#[derive(Clone, Debug, PartialEq, Eq, Serialize, Deserialize)]
pub enum Elem {
    Code { code: Code, wtab: u8, rtab: u8, v: u64 },
    Raw { v: u64, n: usize },
}

pub fn gen_code(rng: &mut Rng) -> Code {
    match rng.below(14) {
        0 => Code::Unary,
        1 => Code::Gamma,
        2 => Code::Delta,
        3 => Code::Omega,
        4 => Code::Zeta(3),
        5 => Code::Zeta(match rng.below(4) {
            0 => rng.usize_range(1, 8),
            1 => 63,
            _ => rng.usize_range(1, 63),
        }),
        6 => Code::Pi(match rng.below(3) {
            0 => rng.usize_range(0, 6),
            _ => rng.usize_range(0, 63),
        }),
        7 => Code::Golomb(match rng.below(4) {
            0 => rng.range(1, 20),
            1 => rng.interesting(u64::MAX).max(1),
            2 => u64::MAX - rng.below(3),
            _ => rng.bits_len(64).max(1),
        }),
        8 => Code::Rice(match rng.below(3) {
            0 => rng.usize_range(0, 6),
            _ => rng.usize_range(0, 63),
        }),
        9 => Code::ExpGolomb(match rng.below(3) {
            0 => rng.usize_range(0, 6),
            _ => rng.usize_range(0, 63),
        }),
        10 => Code::MinBin(match rng.below(4) {
            0 => rng.range(1, 20),
            1 => rng.interesting(u64::MAX).max(1),
            2 => u64::MAX - rng.below(3),
            _ => rng.bits_len(64).max(1),
        }),
        11 => Code::VByteBe,
        12 => Code::VByteLe,
        _ => *rng.pick(&[Code::Gamma, Code::Delta, Code::Zeta(3)]),
    }
}

/// A value in the documented domain of `code`, with bounded unary quotients.
/// Unary parts above 2^16 bits, used in about one value in 300 ("scale" runs).
pub const BIG_QUOT: u64 = 70_000;

pub fn gen_value(rng: &mut Rng, code: Code) -> u64 {
    if rng.chance(1, 300) {
        // scale: a unary part longer than 2^16 bits
        let q = rng.range(65_500, BIG_QUOT);
        match code {
            Code::Unary => return q,
            Code::Rice(k) if k < 40 => return (q << k) | (rng.next() & ((1u64 << k) - 1)),
            Code::Golomb(b) if b < (1u64 << 40) => return q * b + rng.below(b),
            _ => {}
        }
    }
    let maxv: u64 = match code {
        Code::Unary => MAX_QUOT,
        Code::Rice(k) => {
            if k >= 53 {
                u64::MAX - 1
            } else {
                ((MAX_QUOT + 1) << k) - 1
            }
        }
        Code::Golomb(b) => (MAX_QUOT as u128 * b as u128 + (b as u128 - 1)).min((u64::MAX - 1) as u128) as u64,
        Code::MinBin(u) => u - 1,
        Code::VByteBe | Code::VByteLe => u64::MAX,
        _ => u64::MAX - 1,
    };
    let v = match rng.below(10) {
        0 => rng.below(8),
        1 => rng.below(300),
        2 => maxv,
        3 => maxv.saturating_sub(rng.below(3)),
        _ => rng.interesting(maxv),
    };
    v.min(maxv)
}

pub fn gen_elems(rng: &mut Rng, n: usize, small_bias: bool) -> Vec<Elem> {
    let mut out = Vec::with_capacity(n * 2);
    for _ in 0..n {
        let code = gen_code(rng);
        let mut v = gen_value(rng, code);
        if small_bias && rng.chance(1, 2) {
            v = v.min(rng.below(200));
        }
        out.push(Elem::Code {
            code,
            wtab: rng.below(5) as u8,
            rtab: rng.below(5) as u8,
            v,
        });
        if rng.chance(1, 2) {
            let n = match rng.below(4) {
                0 => rng.usize_range(1, 3),
                1 => 64,
                _ => rng.usize_range(0, 64),
            };
            let v = match rng.below(3) {
                0 => u64::MAX,
                1 => 0,
                _ => rng.next(),
            };
            out.push(Elem::Raw { v: mask(v, n), n });
        }
    }
    out
}

pub fn mask(v: u64, n: usize) -> u64 {
    if n >= 64 {
        v
    } else {
        v & ((1u64 << n) - 1)
    }
}

/// Measure the length of the codeword the REAL writer emits for (code, wtab, v):
/// write it into a scratch writer followed by a single 1 bit; the position of
/// the last set bit of the image is the codeword length.
pub fn measure_len(e: En, code: Code, wtab: u8, v: u64) -> Result<usize, String> {
    let (w, h) = AnyWriter::new(e, Wd::U64, &WrBackend::Rec { refuse_at: None });
    let mut w = ManuallyDrop::new(w);
    let r = guard(|| {
        w.write_code(code, wtab, v)?;
        w.write_bits(1, 1)?;
        w.flush()
    });
    match r {
        Ok(Ok(_)) => {}
        Ok(Err(e)) => return Err(format!("scratch write failed: {}", e)),
        Err(p) => return Err(format!("scratch write panicked: {}", p)),
    }
    let bytes = h.delivered_bytes();
    unsafe { ManuallyDrop::drop(&mut w) };
    let m = BitModel::from_bytes(e, &bytes);
    match m.bits.iter().rposition(|b| *b != 0) {
        Some(i) => Ok(i),
        None => Err("marker bit not found".into()),
    }
}

pub struct Written {
    /// bytes delivered by the writer after flush
    pub bytes: Vec<u8>,
    /// start position (bits) of each element, plus the end of the last one
    pub starts: Vec<usize>,
    /// measured length per element
    pub lens: Vec<usize>,
    /// lengths returned by the write calls (not an oracle here)
    pub returned: Vec<usize>,
}

/// Write `offset` raw bits then the elements with a real writer; measure extents.
/// On a library failure returns Err((oracle suffix, detail)).
pub fn write_stream(
    e: En,
    word: Wd,
    backend: &WrBackend,
    offset: &[(u64, usize)],
    elems: &[Elem],
    ctx: &mut Ctx,
) -> Result<Written, (String, String)> {
    let (w, h) = AnyWriter::new(e, word, backend);
    let mut w = ManuallyDrop::new(w);
    let mut pos = 0usize;
    for (v, n) in offset {
        match guard(|| w.write_bits(*v, *n)) {
            Ok(Ok(_)) => pos += n,
            Ok(Err(er)) => return Err(("write_error".into(), format!("write_bits failed: {}", er))),
            Err(p) => return Err(("panic".into(), format!("write_bits panicked: {}", p))),
        }
    }
    let mut starts = Vec::with_capacity(elems.len() + 1);
    let mut lens = Vec::with_capacity(elems.len());
    let mut returned = Vec::with_capacity(elems.len());
    for (i, el) in elems.iter().enumerate() {
        ctx.ops += 1;
        starts.push(pos);
        match el {
            Elem::Raw { v, n } => {
                match guard(|| w.write_bits(*v, *n)) {
                    Ok(Ok(k)) => returned.push(k),
                    Ok(Err(er)) => return Err(("write_error".into(), format!("elem #{} write_bits failed: {}", i, er))),
                    Err(p) => return Err(("panic".into(), format!("elem #{} write_bits({:#x},{}) panicked: {}", i, v, n, p))),
                }
                lens.push(*n);
                pos += n;
            }
            Elem::Code { code, wtab, v, .. } => {
                match guard(|| w.write_code(*code, *wtab, *v)) {
                    Ok(Ok(k)) => returned.push(k),
                    Ok(Err(er)) => return Err(("write_error".into(), format!("elem #{} write {:?} failed: {}", i, code, er))),
                    Err(p) => {
                        return Err((
                            "panic".into(),
                            format!("elem #{} writing {:?} (variant {}) value {} panicked: {}", i, code, wtab, v, p),
                        ))
                    }
                }
                let l = match measure_len(e, *code, *wtab, *v) {
                    Ok(l) => l,
                    Err(m) => return Err(("panic".into(), format!("elem #{} {:?} value {}: {}", i, code, v, m))),
                };
                lens.push(l);
                pos += l;
            }
        }
    }
    starts.push(pos);
    match guard(|| w.flush()) {
        Ok(Ok(_)) => {}
        Ok(Err(er)) => return Err(("write_error".into(), format!("flush failed: {}", er))),
        Err(p) => return Err(("panic".into(), format!("flush panicked: {}", p))),
    }
    let bytes = match (&h.disk, backend) {
        (Some(d), WrBackend::Adapter { .. }) => d.borrow().data.clone(),
        _ => h.delivered_bytes(),
    };
    // harvest faults of the writer-side device
    if let Some(d) = &h.disk {
        for ((f, op), n) in &d.borrow().fired {
            ctx.fault(&format!("{}@{}", f, op), *n);
        }
    }
    let _ = guard(|| unsafe { ManuallyDrop::drop(&mut w) });
    Ok(Written {
        bytes,
        starts,
        lens,
        returned,
    })
}
