//! C05 — table-driven coding is observationally identical to bit-by-bit coding.
//!
//! Differential simulation on CLONES OF THE SAME READER: after a seed-chosen
//! prefix history (reads, peeks, skips) has put the bit buffer in an arbitrary
//! fill state, the same code is read with every table-option combination, with
//! the parameterless default, and with all tables off; outcomes (value | error,
//! position afterwards, next bits) must be identical. Images are (a) arbitrary
//! bit patterns (so that every look-ahead index occurs) and (b) valid
//! gamma/delta/zeta3 streams with values around each table boundary. Strict
//! backends whose data ends 0..READ_BITS-1 bits after the code exercise the
//! failed-peek fallback. Writers: the same value written with every variant into
//! twin writers at the same offset; length functions with tables on/off.
//!
//! The property excludes readers "whose construction emitted the library's
//! insufficient-look-ahead diagnostic for that table": the set of diagnosed
//! (reader kind, table) pairs is MEASURED by constructing each reader kind in a
//! child process with stderr piped and parsing the DANGER lines it really emits.

use crate::bits::*;
use crate::fw::*;
use crate::items::mask;
use crate::model::{BitModel, En};
use crate::rng::Rng;
use crate::rsim::*;
use dsi_bitstream::prelude::*;
use serde::{Deserialize, Serialize};
use std::collections::BTreeSet;
use std::mem::ManuallyDrop;
use std::sync::OnceLock;

// ------------------------------------------------------------ diagnostics

/// (reader kind, table) pairs for which construction printed a DANGER line.
static DIAG: OnceLock<BTreeSet<(RdKind, &'static str)>> = OnceLock::new();

/// Child mode: construct each reader kind once, announcing it on stderr first.
pub fn diag_probe_child() {
    for kind in RdKind::ALL {
        eprintln!("KIND {:?}", kind);
        let (_r, _h) = AnyReader::new(En::BE, kind, &RdBackend::MemInf, &[0u8; 16]);
        eprintln!("KIND {:?}/LE", kind);
        let (_r, _h) = AnyReader::new(En::LE, kind, &RdBackend::MemInf, &[0u8; 16]);
    }
    for n in 1..=64usize {
        eprintln!("KIND N{}", n);
        dsi_bitstream::traits::check_tables(n);
    }
    eprintln!("KIND END");
}

/// (look-ahead width, table) pairs for which `check_tables(width)` printed a DANGER line.
static DIAG_N: OnceLock<BTreeSet<(usize, &'static str)>> = OnceLock::new();

pub fn diagnosed_width() -> &'static BTreeSet<(usize, &'static str)> {
    let _ = diagnosed();
    DIAG_N.get().expect("harness error: width diagnostics not collected")
}

pub fn diagnosed() -> &'static BTreeSet<(RdKind, &'static str)> {
    DIAG.get_or_init(|| {
        let exe = std::env::current_exe().expect("current_exe");
        let out = std::process::Command::new(exe)
            .arg("diag-probe")
            .arg("C05")
            .stdout(std::process::Stdio::null())
            .stderr(std::process::Stdio::piped())
            .output()
            .expect("harness error: cannot run diag-probe");
        let txt = String::from_utf8_lossy(&out.stderr).to_string();
        let mut cur: Option<RdKind> = None;
        let mut cur_n: Option<usize> = None;
        let mut set = BTreeSet::new();
        let mut set_n: BTreeSet<(usize, &'static str)> = BTreeSet::new();
        let mut saw_end = false;
        for l in txt.lines() {
            if let Some(k) = l.strip_prefix("KIND ") {
                let k = k.split('/').next().unwrap_or("");
                cur_n = k.strip_prefix('N').and_then(|x| x.parse().ok());
                cur = match k {
                    "B8" => Some(RdKind::B8),
                    "B16" => Some(RdKind::B16),
                    "B32" => Some(RdKind::B32),
                    "B64" => Some(RdKind::B64),
                    "U64" => Some(RdKind::U64),
                    "END" => {
                        saw_end = true;
                        None
                    }
                    _ => None,
                };
            } else if l.contains("DANGER") {
                if let Some(n) = cur_n {
                    if l.contains('γ') {
                        set_n.insert((n, "gamma"));
                    }
                    if l.contains('δ') {
                        set_n.insert((n, "delta"));
                    }
                    if l.contains('ζ') {
                        set_n.insert((n, "zeta3"));
                    }
                }
                if let Some(k) = cur {
                    if l.contains('γ') {
                        set.insert((k, "gamma"));
                    }
                    if l.contains('δ') {
                        set.insert((k, "delta"));
                    }
                    if l.contains('ζ') {
                        set.insert((k, "zeta3"));
                    }
                }
            }
        }
        if !saw_end {
            panic!("harness error: diag-probe child did not complete");
        }
        let _ = DIAG_N.set(set_n);
        set
    })
}

fn variant_diagnosed(kind: RdKind, code: Code, tab: u8) -> bool {
    code.rtables(tab).iter().any(|t| diagnosed().contains(&(kind, *t)))
}

// ------------------------------------------------------------ scenario

#[derive(Clone, Debug, PartialEq, Eq, Serialize, Deserialize)]
pub enum Step5 {
    /// ordinary op on the main reader (prefix history)
    Op(ROp),
    /// differential read of `code` on clones; the main reader then advances with
    /// variant `cont`
    Diff { code: Code, cont: u8 },
}

#[derive(Clone, Debug, Serialize, Deserialize)]
pub enum Work5 {
    /// arbitrary image
    Image { pattern: Pattern, image: Vec<u8> },
    /// valid stream: offset bits then (code, value) items written by the real writer
    Valid { offset: Vec<(u64, usize)>, items: Vec<(Code, u64)> },
    /// writer-side: offset then items, every write variant into twin writers
    Writers { word: Wd, offset: Vec<(u64, usize)>, items: Vec<(Code, u64)> },
    /// a user-defined reader that can look ahead `n` bits (1..=64) and, as the documentation
    /// asks of implementors, calls `check_tables(n)` when it is built: every table for which
    /// that call printed no diagnostic must decode like the bit-by-bit reader
    Narrow { n: usize, image: Vec<u8>, starts: Vec<usize> },
}

#[derive(Clone, Debug, Serialize, Deserialize)]
pub struct S05 {
    pub e: En,
    pub kind: RdKind,
    pub strict: bool,
    pub work: Work5,
    /// for Image: explicit steps; for Valid: prefix ops are interleaved by index
    pub steps: Vec<Step5>,
}

/// A reader that honestly has only `n` bits of look-ahead: a peek of more bits delivers the
/// first `n` and zeros after them (what a too-small buffer does). Everything else is forwarded
/// to a real buffered reader over u64 words.
pub struct NarrowPeek<R> {
    pub inner: R,
    pub n: usize,
    pub le: bool,
}

impl<E: Endianness, R: BitRead<E>> BitRead<E> for NarrowPeek<R>
where
    R::PeekWord: common_traits::CastableInto<u64>,
{
    type Error = R::Error;
    type PeekWord = u64;
    fn read_bits(&mut self, k: usize) -> Result<u64, Self::Error> {
        self.inner.read_bits(k)
    }
    fn peek_bits(&mut self, k: usize) -> Result<u64, Self::Error> {
        use common_traits::CastableInto;
        if k <= self.n {
            self.inner.peek_bits(k).map(|x| x.cast())
        } else {
            let v: u64 = self.inner.peek_bits(self.n)?.cast();
            Ok(if self.le { v } else { v << (k - self.n) })
        }
    }
    fn skip_bits(&mut self, k: usize) -> Result<(), Self::Error> {
        self.inner.skip_bits(k)
    }
    fn skip_bits_after_peek(&mut self, k: usize) {
        self.inner.skip_bits_after_peek(k)
    }
    fn read_unary(&mut self) -> Result<u64, Self::Error> {
        self.inner.read_unary()
    }
}

/// The `*_param` entry points only (blanket-implemented for every `BitRead`; the parameterless
/// methods exist per concrete reader type). Returns None for variants that are not `*_param`.
fn read_param_on<E: Endianness, R>(r: &mut R, code: Code, tab: u8) -> Option<Result<u64, R::Error>>
where
    R: BitRead<E> + GammaReadParam<E> + DeltaReadParam<E> + ZetaReadParam<E>,
{
    Some(match (code, tab) {
        (Code::Gamma, 0) => r.read_gamma_param::<false>(),
        (Code::Gamma, 1) => r.read_gamma_param::<true>(),
        (Code::Delta, 0) => r.read_delta_param::<false, false>(),
        (Code::Delta, 1) => r.read_delta_param::<false, true>(),
        (Code::Delta, 2) => r.read_delta_param::<true, false>(),
        (Code::Delta, 3) => r.read_delta_param::<true, true>(),
        (Code::Zeta(3), 0) => r.read_zeta3_param::<false>(),
        (Code::Zeta(3), 1) => r.read_zeta3_param::<true>(),
        _ => return None,
    })
}

fn narrow_workload(s: &S05, n: usize, image: &[u8], starts: &[usize], ctx: &mut Ctx) {
    let model = BitModel::from_bytes(s.e, image);
    let words = crate::backends::bytes_to_words::<u64>(image);
    let diag = diagnosed_width();
    macro_rules! run {
        ($E:ty, $le:expr) => {{
            let base0 = BufBitReader::<$E, _>::new(MemWordReader::new(words.clone()));
            for &p in starts {
                for code in TCODES {
                    if valid_code_at(&model, s.e, p, code, model.len() + 64).is_none() {
                        continue;
                    }
                    let mut tags = vec![format!("e={:?}", s.e), format!("lookahead={}", n), format!("op=read_{}", code.name()), "reader=user_defined".to_string()];
                    // reference: tables off
                    let notab = (0..code.n_rtabs()).find(|t| code.rtables(*t).is_empty()).unwrap_or(0);
                    let mut r0 = base0.clone();
                    if r0.skip_bits(p).is_err() {
                        continue;
                    }
                    let exp = match guard(|| read_param_on::<$E, _>(&mut r0, code, notab).map(|r| r.map_err(|e| e.to_string()))) {
                        Ok(Some(Ok(v))) => (v, r0.bit_pos().unwrap_or(u64::MAX)),
                        _ => continue,
                    };
                    for tab in 0..code.n_rtabs() {
                        let tabs = code.rtables(tab);
                        if tabs.is_empty() {
                            continue;
                        }
                        if tabs.iter().any(|t| diag.contains(&(n, *t))) {
                            ctx.probe("c05.narrow_variant_excluded_as_diagnosed");
                            continue;
                        }
                        tags.truncate(4);
                        tags.push(format!("tables={}", tabs.join("+")));
                        ctx.step(tags.clone());
                        ctx.ops += 1;
                        let mut inner = base0.clone();
                        let _ = inner.skip_bits(p);
                        let mut nr = NarrowPeek { inner, n, le: $le };
                        let got = match guard(|| read_param_on::<$E, _>(&mut nr, code, tab).map(|r| r.map_err(|e| e.to_string()))) {
                            Ok(Some(r)) => Ok(r),
                            Ok(None) => continue, // parameterless variants exist per concrete reader type only
                            Err(p) => Err(p),
                        };
                        let pos = nr.inner.bit_pos().unwrap_or(u64::MAX);
                        ctx.ev(match &got {
                            Ok(Ok(v)) => *v,
                            _ => u64::MAX,
                        });
                        ctx.ev(pos);
                        ctx.sig(&[55, s.e as u64, n as u64, crate::p03::code_class(code), tab as u64]);
                        ctx.probe("c05.narrow_lookahead_table_read");
                        ctx.progressed = true;
                        if got != Ok(Ok(exp.0)) || pos != exp.1 {
                            return ctx.fail(
                                "C05.read_differs",
                                format!(
                                    "a reader with {} bits of look-ahead (check_tables({}) printed no diagnostic for {:?}) reading {:?} at bit {} through those tables gives {:?} ending at bit {}; without tables the value is {} ending at bit {}",
                                    n, n, tabs, code, p, got, pos, exp.0, exp.1
                                ),
                            );
                        }
                    }
                }
            }
        }};
    }
    match s.e {
        En::BE => run!(BE, false),
        En::LE => run!(LE, true),
    }
}

pub struct C05;

const TCODES: [Code; 3] = [Code::Gamma, Code::Delta, Code::Zeta(3)];

// ------------------------------------------------------------ tiny validity model
// (only to keep the bit-by-bit decoders inside their documented domain on
// arbitrary images: unary part short enough, nested length <= 63)

fn gamma_at(m: &BitModel, e: En, pos: usize) -> Option<(u64, usize)> {
    let z = m.unary_at(pos)? as usize;
    if z > 63 {
        return None;
    }
    let low = m.get_bits(e, pos + z + 1, z);
    Some(((1u64 << z) - 1 + low, 2 * z + 1))
}

fn valid_code_at(m: &BitModel, e: En, pos: usize, code: Code, limit: usize) -> Option<usize> {
    match code {
        Code::Gamma => {
            let (_, l) = gamma_at(m, e, pos)?;
            (pos + l <= limit).then_some(l)
        }
        Code::Delta => {
            let (g, l) = gamma_at(m, e, pos)?;
            if g > 63 {
                return None;
            }
            let tot = l + g as usize;
            (pos + tot <= limit).then_some(tot)
        }
        Code::Zeta(3) => {
            let h = m.unary_at(pos)? as usize;
            if h > 20 {
                return None;
            }
            // at most h+1 + 3h+3 bits
            let maxl = h + 1 + 3 * h + 3;
            (pos + maxl <= limit).then_some(maxl)
        }
        _ => None,
    }
}

// ------------------------------------------------------------ differential read

#[derive(Debug, Clone, PartialEq, Eq)]
struct Outcome {
    val: Result<u64, ()>,
    pos_after: Option<u64>,
    next: Option<Result<u64, ()>>,
}

fn diff_read(sim: &mut RSim, ctx: &mut Ctx, i: usize, code: Code, cont: u8, backend: &str) -> bool {
    let e = sim.e;
    let kind = sim.kind;
    let fill = sim.fill();
    let mut base: Option<(u8, Outcome)> = None;
    let nt = code.n_rtabs();
    for tab in 0..nt {
        let mut t = sim.tags(&format!("read_{}", code.name()));
        t.push(format!("variant={}", tab));
        t.push(format!("tables={}", {
            let l = code.rtables(tab);
            if l.is_empty() {
                "none".to_string()
            } else {
                l.join("+")
            }
        }));
        t.push(format!("backend={}", backend));
        ctx.set_tags(t);
        if variant_diagnosed(kind, code, tab) {
            ctx.probe("c05.variant_excluded_as_diagnosed");
            continue;
        }
        ctx.ops += 1;
        let mut c = match guard(|| sim.r.try_clone()) {
            Ok(c) => c,
            Err(p) => {
                ctx.fail("C05.panic", format!("clone panicked: {}", p));
                return false;
            }
        };
        let _ = crate::backends::take_last_cloned_stats();
        // reach: which table index does this variant look up?
        for tname in code.rtables(tab) {
            let rb = table_read_bits(tname);
            if sim.zero_ext || sim.pos + rb <= sim.data_bits {
                let idx = sim.model.get_bits(e, sim.pos, rb);
                let key = (e as u64) << 32 | idx;
                match tname {
                    "gamma" => ctx.cover("c05.gamma_table_index", key),
                    "delta" => ctx.cover("c05.delta_table_index", key),
                    _ => ctx.cover("c05.zeta3_table_index", key),
                }
            } else {
                ctx.probe("c05.peek_fails_at_strict_tail");
            }
            break; // only the first table consulted is certain to be looked up
        }
        let r = match guard(|| c.read_code(code, tab)) {
            Ok(r) => r,
            Err(p) => {
                ctx.fail(
                    "C05.panic",
                    format!("step #{} reading {:?} variant {} at bit {} (buffer fill {:?}) panicked: {}", i, code, tab, sim.pos, fill, p),
                );
                return false;
            }
        };
        let out = match r {
            Ok(v) => {
                let p = guard(|| c.bit_pos()).ok().and_then(|r| r.ok());
                let nx = guard(|| c.read_bits(13)).ok().map(|r| r.map_err(|_| ()));
                Outcome {
                    val: Ok(v),
                    pos_after: p,
                    next: nx,
                }
            }
            Err(_) => Outcome {
                val: Err(()),
                pos_after: None,
                next: None,
            },
        };
        ctx.ev(match out.val {
            Ok(v) => v,
            Err(()) => u64::MAX,
        });
        ctx.ev(out.pos_after.unwrap_or(u64::MAX));
        match &base {
            None => base = Some((tab, out)),
            Some((bt, b)) => {
                ctx.progressed = true;
                if *b != out {
                    ctx.fail(
                        "C05.read_differs",
                        format!(
                            "step #{} reading {:?} at bit {} (buffer fill {:?}): variant {} (tables {:?}) gives {:?}, variant {} (tables off) gives {:?}",
                            i,
                            code,
                            sim.pos,
                            fill,
                            tab,
                            code.rtables(tab),
                            out,
                            bt,
                            b
                        ),
                    );
                    return false;
                }
            }
        }
    }
    // advance the main reader with the continuation variant (a non-diagnosed one)
    let mut cont = cont % nt;
    if variant_diagnosed(kind, code, cont) {
        cont = 0;
    }
    let (_, b) = base.unwrap();
    let r = match guard(|| sim.r.read_code(code, cont)) {
        Ok(r) => r,
        Err(p) => {
            ctx.fail("C05.panic", format!("step #{} reading {:?} variant {} panicked: {}", i, code, cont, p));
            return false;
        }
    };
    match (r, b.val, b.pos_after) {
        (Ok(_), Ok(_), Some(p)) => {
            sim.pos = p as usize;
            true
        }
        _ => {
            sim.dead = true;
            false
        }
    }
}

// ------------------------------------------------------------ writers

fn write_variants(s: &S05, word: Wd, offset: &[(u64, usize)], items: &[(Code, u64)], ctx: &mut Ctx) {
    let e = s.e;
    for (i, (code, v)) in items.iter().enumerate() {
        let nt = code.n_wtabs();
        let mut base: Option<(Vec<u8>, usize)> = None;
        for tab in 0..nt {
            ctx.set_tags(vec![
                format!("e={:?}", e),
                format!("word={:?}", word),
                format!("op=write_{}", code.name()),
                format!("variant={}", tab),
            ]);
            ctx.ops += 1;
            let (w, h) = AnyWriter::new(e, word, &WrBackend::Rec { refuse_at: None });
            let mut w = ManuallyDrop::new(w);
            let r = guard(|| {
                for (ov, on) in offset {
                    w.write_bits(*ov, *on)?;
                }
                // preceding items with variant 0, so that the twin writers are at the same offset
                for (pc, pv) in &items[..i] {
                    w.write_code(*pc, 0, *pv)?;
                }
                let k = w.write_code(*code, tab, *v)?;
                w.write_bits(1, 1)?;
                w.flush()?;
                Ok::<usize, crate::backends::SimErr>(k)
            });
            let k = match r {
                Ok(Ok(k)) => k,
                Ok(Err(er)) => return ctx.fail("C05.spurious_error", format!("write failed: {}", er)),
                Err(p) => return ctx.fail("C05.panic", format!("writing {:?} variant {} value {} panicked: {}", code, tab, v, p)),
            };
            let bytes = h.delivered_bytes();
            unsafe { ManuallyDrop::drop(&mut w) };
            ctx.ev_bytes(&bytes);
            ctx.ev(k as u64);
            match &base {
                None => base = Some((bytes, k)),
                Some((bb, bk)) => {
                    ctx.progressed = true;
                    if *bb != bytes || *bk != k {
                        return ctx.fail(
                            "C05.write_differs",
                            format!(
                                "writing {:?} value {} at the same offset: variant {} produced {:02x?} (returned {}), variant 0 (tables off) produced {:02x?} (returned {})",
                                code, v, tab, bytes, k, bb, bk
                            ),
                        );
                    }
                }
            }
        }
        // length functions with tables on / off / default
        let (_, k) = base.unwrap();
        ctx.set_tags(vec![format!("op=len_{}", code.name())]);
        let lens: Vec<usize> = match code {
            Code::Gamma => vec![len_gamma_param::<false>(*v), len_gamma_param::<true>(*v), len_gamma(*v)],
            Code::Delta => vec![
                len_delta_param::<false, false>(*v),
                len_delta_param::<false, true>(*v),
                len_delta_param::<true, false>(*v),
                len_delta_param::<true, true>(*v),
                len_delta(*v),
            ],
            Code::Zeta(3) => vec![len_zeta_param::<false>(*v, 3), len_zeta_param::<true>(*v, 3), len_zeta(*v, 3)],
            _ => vec![],
        };
        for (j, l) in lens.iter().enumerate() {
            ctx.ev(*l as u64);
            if *l != lens[0] || *l != k {
                return ctx.fail(
                    "C05.len_differs",
                    format!("length of {:?} value {}: variant {} says {}, tables off says {}, the write returned {}", code, v, j, l, lens[0], k),
                );
            }
        }
        let wm = match code {
            Code::Gamma => dsi_bitstream::codes::gamma_tables::WRITE_MAX,
            Code::Delta => dsi_bitstream::codes::delta_tables::WRITE_MAX,
            _ => dsi_bitstream::codes::zeta_tables::WRITE_MAX,
        };
        if *v <= wm {
            match code {
                Code::Gamma => ctx.cover("c05.gamma_write_entry", (e as u64) << 32 | *v),
                Code::Delta => ctx.cover("c05.delta_write_entry", (e as u64) << 32 | *v),
                _ => ctx.cover("c05.zeta3_write_entry", (e as u64) << 32 | *v),
            }
        }
        ctx.probe_if(*v == wm, "c05.write_at_table_max");
        ctx.probe_if(*v == wm + 1, "c05.write_just_above_table_max");
    }
}

// ------------------------------------------------------------ generation

fn boundary_value(rng: &mut Rng, code: Code) -> u64 {
    let wm = match code {
        Code::Gamma => dsi_bitstream::codes::gamma_tables::WRITE_MAX,
        Code::Delta => dsi_bitstream::codes::delta_tables::WRITE_MAX,
        _ => dsi_bitstream::codes::zeta_tables::WRITE_MAX,
    };
    match rng.below(8) {
        0 => wm,
        1 => wm + 1,
        2 => wm.saturating_sub(1),
        3 => rng.below(wm + 2),
        4 => rng.below(5000),
        5 => (1u64 << rng.below(14)).wrapping_sub(1) + rng.below(3),
        6 => rng.interesting(u64::MAX - 1),
        _ => rng.below(300),
    }
}

fn gen_prefix_op(rng: &mut Rng, kind: RdKind) -> ROp {
    let wb = kind.word_bits();
    match rng.below(4) {
        0 => ROp::Bits((*rng.pick(&[0usize, 1, 2, 3, 5, 7, 8, wb - 1, wb, wb + 1])).min(64)),
        1 => ROp::Bits(rng.usize_range(0, 64)),
        2 => ROp::Peek(rng.usize_range(1, kind.max_peek())),
        _ => ROp::Skip(rng.usize_range(0, wb + 3)),
    }
}

impl Family for C05 {
    type Scn = S05;
    const ID: &'static str = "C05";

    fn gen(rng: &mut Rng, tier: Tier, index: u64) -> S05 {
        let e = if index % 2 == 0 { En::BE } else { En::LE };
        let kind = RdKind::ALL[((index / 2) % 5) as usize];
        let strict = (index / 10) % 2 == 1;
        let which = (index / 20) % 8;
        if index % 97 == 41 {
            // look-ahead widths 1..=64, every width in turn; an image made of valid codewords
            let n = ((index / 97) % 64) as usize + 1;
            let e = if rng.chance(1, 2) { En::BE } else { En::LE };
            let mut m = BitModel::new();
            let mut starts = Vec::new();
            m.push_bits(e, rng.next(), rng.usize_range(0, 70).min(64));
            for _ in 0..rng.usize_range(2, 10) {
                starts.push(m.len());
                let c = TCODES[rng.below(3) as usize];
                let v = boundary_value(rng, c);
                // written with the real writer (tables off) into a scratch stream
                let (mut w, h) = AnyWriter::new(e, Wd::U64, &WrBackend::Vec);
                let _ = w.write_code(c, 0, v);
                let _ = w.write_bits(1, 1);
                let _ = w.flush();
                let bytes = h.delivered_bytes();
                let cm = BitModel::from_bytes(e, &bytes);
                let end = cm.bits.iter().rposition(|b| *b != 0).unwrap_or(0);
                m.bits.extend_from_slice(&cm.bits[..end]);
                w.forget();
            }
            m.push_bits(e, rng.next(), 64);
            m.pad_to_multiple(64);
            return S05 {
                e,
                kind: RdKind::B64,
                strict: false,
                work: Work5::Narrow { n, image: m.to_bytes(e), starts },
                steps: vec![],
            };
        }
        let off_bits = rng.usize_range(0, 2 * kind.word_bits() + 1);
        let mut offset = Vec::new();
        let mut left = off_bits;
        while left > 0 {
            let n = left.min(rng.usize_range(1, 64));
            offset.push((mask(rng.next(), n), n));
            left -= n;
        }
        if which == 0 {
            let word = Wd::ALL[rng.below(5) as usize];
            let n = rng.usize_range(1, 6);
            let items = (0..n)
                .map(|_| {
                    let c = TCODES[rng.below(3) as usize];
                    (c, boundary_value(rng, c))
                })
                .collect();
            return S05 {
                e,
                kind,
                strict,
                work: Work5::Writers { word, offset, items },
                steps: vec![],
            };
        }
        if which <= 4 {
            // arbitrary image; thorough tier additionally plants a systematic
            // look-ahead pattern so that every table index occurs
            let pattern = PATTERNS[rng.below(5) as usize];
            let wbytes = kind.word_bits() / 8;
            let nbytes = (rng.usize_range(2, 24) * wbytes).min(192).max(16);
            let mut image = gen_image(rng, pattern, nbytes);
            let mut planted_at: Option<usize> = None;
            if tier == Tier::Thorough || rng.chance(1, 2) {
                // plant a 12-bit pattern (index/160 cycles through all of them) at a random place
                let pat = (index / 160) % 4096;
                let at = rng.usize_range(0, nbytes * 8 - 13 - 64);
                planted_at = Some(at);
                let mut m = BitModel::from_bytes(e, &image);
                for j in 0..12 {
                    // stream order = order in which peek sees the bits
                    let bit = match e {
                        En::BE => (pat >> (11 - j)) & 1,
                        En::LE => (pat >> j) & 1,
                    };
                    m.bits[at + j] = bit as u8;
                }
                image = m.to_bytes(e);
            }
            // guard one-bit at the very end so that bit-by-bit decoding terminates
            let last = image.len() - 1;
            image[last] |= 0x81;
            // prefix history that lands exactly on the planted pattern, then the
            // differential read there, then a free mix
            let mut steps = Vec::new();
            let mut pos = 0usize;
            if let Some(at) = planted_at {
                for _ in 0..rng.usize_range(0, 5) {
                    let op = gen_prefix_op(rng, kind);
                    let adv = match &op {
                        ROp::Bits(n) | ROp::Skip(n) => *n,
                        _ => 0,
                    };
                    if pos + adv > at {
                        continue;
                    }
                    pos += adv;
                    steps.push(Step5::Op(op));
                }
                while pos < at {
                    let d = at - pos;
                    let n = if d <= 64 && rng.chance(2, 3) { d } else { d.min(rng.usize_range(1, 200)) };
                    if n <= 64 && rng.chance(1, 2) {
                        steps.push(Step5::Op(ROp::Bits(n)));
                    } else {
                        steps.push(Step5::Op(ROp::Skip(n)));
                    }
                    pos += n;
                }
                if rng.chance(1, 3) {
                    steps.push(Step5::Op(ROp::Peek(rng.usize_range(1, kind.max_peek()))));
                }
                steps.push(Step5::Diff {
                    code: TCODES[((index / 160 / 4096) % 3) as usize],
                    cont: rng.below(5) as u8,
                });
            }
            let nsteps = rng.usize_range(1, 8);
            for _ in 0..nsteps {
                if rng.chance(1, 2) {
                    steps.push(Step5::Op(gen_prefix_op(rng, kind)));
                } else {
                    steps.push(Step5::Diff {
                        code: TCODES[rng.below(3) as usize],
                        cont: rng.below(5) as u8,
                    });
                }
            }
            return S05 {
                e,
                kind,
                strict,
                work: Work5::Image { pattern, image },
                steps,
            };
        }
        // valid stream of boundary values
        let n = rng.usize_range(1, 8);
        let items: Vec<(Code, u64)> = (0..n)
            .map(|_| {
                let c = TCODES[rng.below(3) as usize];
                (c, boundary_value(rng, c))
            })
            .collect();
        let mut steps = Vec::new();
        for it in &items {
            steps.push(Step5::Diff {
                code: it.0,
                cont: rng.below(5) as u8,
            });
        }
        S05 {
            e,
            kind,
            strict,
            work: Work5::Valid { offset, items },
            steps,
        }
    }

    fn exec(s: &S05, ctx: &mut Ctx) {
        let backend = if s.strict { RdBackend::MemStrict } else { RdBackend::MemInf };
        match &s.work {
            Work5::Narrow { n, image, starts } => narrow_workload(s, *n, image, starts, ctx),
            Work5::Writers { word, offset, items } => write_variants(s, *word, offset, items, ctx),
            Work5::Image { image, .. } => {
                let mut sim = RSim::new("C05", s.e, s.kind, &backend, image);
                for (i, st) in s.steps.iter().enumerate() {
                    if sim.dead || ctx.failed() {
                        break;
                    }
                    match st {
                        Step5::Op(op) => {
                            // prefix ops must stay within the data on strict backends
                            let need = match op {
                                ROp::Bits(n) | ROp::Skip(n) | ROp::Peek(n) => *n,
                                _ => 0,
                            };
                            if !sim.in_data(need) {
                                continue;
                            }
                            let mut t = sim.tags(&op.name());
                            t.push("phase=prefix".into());
                            ctx.step(t);
                            match sim.step(ctx, i, op) {
                                StepOut::Ok => {}
                                _ => break,
                            }
                        }
                        Step5::Diff { code, cont } => {
                            ctx.steps += 1;
                            // keep the bit-by-bit decoders inside their domain
                            let limit = if s.strict { sim.data_bits } else { sim.data_bits + 64 };
                            if valid_code_at(&sim.model, s.e, sim.pos, *code, limit).is_none() {
                                ctx.probe("c05.skipped_invalid_codeword_at_position");
                                continue;
                            }
                            let f = sim.fill().map(|f| f as u64).unwrap_or(999);
                            ctx.sig(&[5, s.e as u64, s.kind as u64, s.strict as u64, crate::p03::code_class(*code), f]);
                            if let Some(fl) = sim.fill() {
                                ctx.probe_if(fl > s.kind.word_bits(), "c05.table_read_fill_above_word");
                                ctx.probe_if(fl == 0, "c05.table_read_empty_buffer");
                            }
                            if !diff_read(&mut sim, ctx, i, *code, *cont, backend.name()) {
                                break;
                            }
                        }
                    }
                }
            }
            Work5::Valid { offset, items } => {
                ctx.set_tags(vec![format!("e={:?}", s.e), "op=write".into()]);
                let elems: Vec<crate::items::Elem> = items
                    .iter()
                    .map(|(c, v)| crate::items::Elem::Code {
                        code: *c,
                        wtab: 0,
                        rtab: 0,
                        v: *v,
                    })
                    .collect();
                let w = match crate::items::write_stream(s.e, Wd::U64, &WrBackend::Vec, offset, &elems, ctx) {
                    Ok(w) => w,
                    Err(_) => return,
                };
                // cut the image right after the word holding the end of the last
                // item, so that on strict backends 0..W-1 bits remain after it
                let wbytes = s.kind.word_bits() / 8;
                let total = *w.starts.last().unwrap();
                let keep = total.div_ceil(s.kind.word_bits()) * wbytes;
                let mut img = w.bytes.clone();
                img.resize(img.len().max(keep), 0);
                img.truncate(keep);
                let mut sim = RSim::new("C05", s.e, s.kind, &backend, &img);
                for (k, (_v, n)) in offset.iter().enumerate() {
                    ctx.step(sim.tags("offset_read_bits"));
                    match sim.step(ctx, k, &ROp::Bits(*n)) {
                        StepOut::Ok => {}
                        _ => return,
                    }
                }
                for (i, st) in s.steps.iter().enumerate() {
                    if let Step5::Diff { code, cont } = st {
                        ctx.steps += 1;
                        if i >= items.len() || sim.dead {
                            break;
                        }
                        let (icode, iv) = items[i];
                        if icode != *code {
                            break; // shrunk into inconsistency
                        }
                        let rem = sim.data_bits - (sim.pos + w.lens[i]).min(sim.data_bits);
                        ctx.probe_if(s.strict && rem < 12, "c05.code_ends_within_lookahead_of_strict_end");
                        let f = sim.fill().map(|f| f as u64).unwrap_or(999);
                        ctx.sig(&[55, s.e as u64, s.kind as u64, s.strict as u64, crate::p03::code_class(*code), f, w.lens[i] as u64]);
                        let rb = match code {
                            Code::Gamma => READ_BITS_GAMMA,
                            Code::Delta => READ_BITS_DELTA,
                            _ => READ_BITS_ZETA3,
                        };
                        ctx.probe_if(w.lens[i] == rb, "c05.codeword_len_eq_index_width");
                        ctx.probe_if(w.lens[i] > rb && w.lens[i] <= rb + 2, "c05.codeword_len_just_above_index_width");
                        ctx.probe_if(w.lens[i] < rb && w.lens[i] + 2 >= rb, "c05.codeword_len_just_below_index_width");
                        let start = sim.pos;
                        if !diff_read(&mut sim, ctx, i, *code, *cont, backend.name()) {
                            break;
                        }
                        // valid stream: the agreed outcome is known
                        ctx.set_tags(sim.tags(&format!("read_{}", code.name())));
                        if sim.pos != start + w.lens[i] {
                            ctx.fail(
                                "C05.position",
                                format!(
                                    "reading {:?} value {} at bit {}: all variants agree on position {} but the codeword written there is {} bits long",
                                    code, iv, start, sim.pos, w.lens[i]
                                ),
                            );
                            break;
                        }
                    }
                }
            }
        }
    }

    fn shrink(s: &S05) -> Vec<S05> {
        let mut out = Vec::new();
        match &s.work {
            Work5::Image { pattern, image } => {
                for steps in shrink_list(&s.steps) {
                    out.push(S05 { steps, ..s.clone() });
                }
                for (i, st) in s.steps.iter().enumerate() {
                    if let Step5::Op(op) = st {
                        let alts: Vec<ROp> = match op {
                            ROp::Bits(n) => shrink_usize(*n).into_iter().map(ROp::Bits).collect(),
                            ROp::Skip(n) => shrink_usize(*n).into_iter().map(ROp::Skip).collect(),
                            ROp::Peek(n) => shrink_usize(*n).into_iter().filter(|m| *m > 0).map(ROp::Peek).collect(),
                            _ => vec![],
                        };
                        for a in alts {
                            let mut t = s.clone();
                            t.steps[i] = Step5::Op(a);
                            out.push(t);
                        }
                    }
                }
                let wbytes = s.kind.word_bits() / 8;
                if image.len() > 2 * wbytes {
                    let mut im = image.clone();
                    im.truncate(image.len() - wbytes);
                    let l = im.len() - 1;
                    im[l] |= 0x81;
                    out.push(S05 {
                        work: Work5::Image { pattern: *pattern, image: im },
                        ..s.clone()
                    });
                }
                for i in (0..image.len().saturating_sub(1)).rev() {
                    if image[i] != 0 && out.len() < 300 {
                        let mut im = image.clone();
                        im[i] = 0;
                        out.push(S05 {
                            work: Work5::Image { pattern: *pattern, image: im },
                            ..s.clone()
                        });
                    }
                }
            }
            Work5::Narrow { n, image, starts } => {
                for st in shrink_list(starts) {
                    if !st.is_empty() {
                        out.push(S05 { work: Work5::Narrow { n: *n, image: image.clone(), starts: st }, ..s.clone() });
                    }
                }
            }
            Work5::Valid { offset, items } => {
                // drop items from the end (keeps steps consistent)
                if items.len() > 1 {
                    for k in 0..items.len() {
                        let mut it = items.clone();
                        it.remove(k);
                        let mut st = s.steps.clone();
                        if k < st.len() {
                            st.remove(k);
                        }
                        out.push(S05 {
                            work: Work5::Valid { offset: offset.clone(), items: it },
                            steps: st,
                            ..s.clone()
                        });
                    }
                }
                for o in shrink_list(offset) {
                    out.push(S05 {
                        work: Work5::Valid { offset: o, items: items.clone() },
                        ..s.clone()
                    });
                }
                for (i, (_c, v)) in items.iter().enumerate() {
                    for u in shrink_u64(*v) {
                        let mut it = items.clone();
                        it[i].1 = u;
                        out.push(S05 {
                            work: Work5::Valid { offset: offset.clone(), items: it },
                            ..s.clone()
                        });
                    }
                }
            }
            Work5::Writers { word, offset, items } => {
                for it in shrink_list(items) {
                    if !it.is_empty() {
                        out.push(S05 {
                            work: Work5::Writers { word: *word, offset: offset.clone(), items: it },
                            ..s.clone()
                        });
                    }
                }
                for o in shrink_list(offset) {
                    out.push(S05 {
                        work: Work5::Writers { word: *word, offset: o, items: items.clone() },
                        ..s.clone()
                    });
                }
                for (i, (_c, v)) in items.iter().enumerate() {
                    for u in shrink_u64(*v) {
                        let mut it = items.clone();
                        it[i].1 = u;
                        out.push(S05 {
                            work: Work5::Writers { word: *word, offset: offset.clone(), items: it },
                            ..s.clone()
                        });
                    }
                }
            }
        }
        out
    }

    fn rule() -> &'static str {
        "one case = (endianness, reader {buffered u8..u64, unbuffered}, backend strict or zero-extended, workload). Workloads: (a) arbitrary image (5 patterns, a systematically cycling 12-bit look-ahead pattern planted at a random bit position, guard bit at the end) with a history mixing prefix reads/peeks/skips and differential reads; (b) valid gamma/delta/zeta3 stream of values around the table boundaries (WRITE_MAX-1..+1, codeword length = index width -1/0/+1, random) cut right after the word holding the last codeword; (c) writer side: every write variant into twin writers at the same offset, and the length functions with tables on/off. A differential read clones the reader once per method variant (tables off, each table-option combination, parameterless default) and requires identical (value | error, bit position afterwards, next 13 bits); variants whose table was diagnosed at construction of that reader kind (measured from the library's real stderr output) are excluded. distinct_nontrivial = distinct (endianness, reader, strict?, code, measured buffer fill before the read[, codeword length]) signatures; coverage_sets count the distinct decode-table indices and encode-table entries exercised (d) one run in 97: a user-defined reader with n bits of look-ahead, n = 1..=64 in turn (a pass-through over a real buffered reader whose peeks of more than n bits deliver n bits and zeros), which calls check_tables(n) as the documentation asks of implementors: every *_param table variant for which that call printed no diagnostic must give the value and the final position of the table-less read, on a stream of boundary-valued gamma / delta / zeta3 codewords."
    }

    fn components() -> (Vec<&'static str>, Vec<&'static str>) {
        (
            vec!["gamma/delta/zeta table readers and writers (read_table_*, write_table_*, LEN)", "*_param::<USE_TABLE> methods and parameterless defaults", "BufBitReader u8..u64 (peek_bits, skip_bits_after_peek, Clone)", "BitReader", "MemWordReader strict / zero-extended", "check_tables diagnostic (real stderr output parsed)"],
            vec![],
        )
    }

    fn required_probes(_t: Tier) -> Vec<&'static str> {
        vec![
            "c05.narrow_lookahead_table_read",
            "c05.narrow_variant_excluded_as_diagnosed",
            "c05.peek_fails_at_strict_tail",
            "c05.table_read_fill_above_word",
            "c05.table_read_empty_buffer",
            "c05.code_ends_within_lookahead_of_strict_end",
            "c05.codeword_len_eq_index_width",
            "c05.codeword_len_just_above_index_width",
            "c05.codeword_len_just_below_index_width",
            "c05.write_at_table_max",
            "c05.write_just_above_table_max",
        ]
    }

    fn required_cover(t: Tier) -> Vec<(&'static str, usize)> {
        match t {
            Tier::Quick => vec![("c05.gamma_table_index", 600), ("c05.delta_table_index", 1500), ("c05.zeta3_table_index", 2500)],
            // every index of every decoding table, both endiannesses. For the delta table 31
            // of the 2048 look-ahead patterns per endianness start a gamma part announcing a
            // length above 64 bits (>= 6 leading zeros followed by a non-minimal remainder):
            // they are not the prefix of any in-domain delta code and cannot be read
            Tier::Thorough => vec![
                ("c05.gamma_table_index", 2 * 512),
                ("c05.delta_table_index", 2 * (2048 - 31)),
                ("c05.zeta3_table_index", 2 * 4096),
            ],
        }
    }

    fn runs(t: Tier) -> u64 {
        match t {
            Tier::Quick => 3_000_000,
            Tier::Thorough => 150_000_000,
        }
    }

    fn assumptions() -> Vec<&'static str> {
        vec![
            "on arbitrary images a differential read is issued only where a tiny validity model says the bit-by-bit decoder stays inside its documented domain (unary part <= 63 / nested length <= 63)",
            "the set of diagnosed (reader kind, table) pairs is whatever the library really prints at construction",
        ]
    }
}
