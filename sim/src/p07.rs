//! C07 — reported bit positions and seeks are exact for every history.
//!
//! System: REAL BufBitReader u8..u64 / BitReader over memory backends and over
//! seekable byte streams (WordAdapter over SimDisk directly or through std
//! BufReader; benign short-read / Interrupted faults must be invisible, an
//! injected seek error must surface as Err). The stream is a valid item stream
//! written by the real writer (so that code reads with and without tables have a
//! known extent) over which the history interleaves reads, peeks, skips, code
//! reads, byte reads and seeks to arbitrary targets.
//! Oracle: bit_pos() == model position after EVERY step; after a seek every
//! later value equals the model read from p; a quarter of the runs additionally
//! builds a fresh reader that consumed exactly p bits and runs it in lock-step.

use crate::bits::*;
use crate::fw::*;
use crate::items::*;
use crate::model::En;
use crate::p02::gen_rd_backend;
use crate::rng::Rng;
use crate::rsim::*;
use crate::simdisk::{ErrK, Fault};
use serde::{Deserialize, Serialize};

#[derive(Clone, Debug, PartialEq, Eq, Serialize, Deserialize)]
pub enum Op7 {
    /// read the element that starts at the current position (if any; otherwise a
    /// short fixed-width read)
    ReadItem,
    Bits(usize),
    Skip(usize),
    Peek(usize),
    Unary,
    Bytes(usize),
    SeekItem(usize),
    /// word index (modulo number of words + 1) and offset -1/0/+1
    SeekWord(usize, i8),
    SeekHere,
    SeekStart,
    SeekEnd,
    SeekAbs(u64),
    /// seek to the start of the last element of the stream
    SeekLastItem,
    /// read (true) or skip (false) up to the next word boundary
    ToBoundary(bool),
}

#[derive(Clone, Debug, Serialize, Deserialize)]
pub struct S07 {
    pub e: En,
    pub kind: RdKind,
    pub backend: RdBackend,
    pub elems: Vec<Elem>,
    pub ops: Vec<Op7>,
    pub lockstep: bool,
    /// insert a raw filler before the last element so that the stream ends exactly at
    /// the end of the last 64-bit word (no slack after the last codeword)
    #[serde(default)]
    pub align_tail: bool,
    /// scale: seeks to positions up to 2^62 bits over the sparse backends
    #[serde(default)]
    pub huge: Option<crate::giant::HugeSeek>,
    /// the reader is created over a backend that was moved to this word (by the backend's
    /// own set_word_pos) beforehand
    #[serde(default)]
    pub start_words: usize,
}

pub struct C07;

fn no_table_variant(rng: &mut Rng, code: Code) -> u8 {
    // a read-side method variant that consults no decoding table
    for _ in 0..8 {
        let t = rng.below(code.n_rtabs() as u64) as u8;
        if code.rtables(t).is_empty() {
            return t;
        }
    }
    0
}

impl Family for C07 {
    type Scn = S07;
    const ID: &'static str = "C07";

    fn gen(rng: &mut Rng, _tier: Tier, index: u64) -> S07 {
        let e = if index % 2 == 0 { En::BE } else { En::LE };
        let kind = RdKind::ALL[((index / 2) % 5) as usize];
        let wb = kind.word_bits();
        if index % 40 == 13 || crate::giant::is_giant_index(index) {
            // (index % 40 is correlated with the reader selection above)
            let kind = *rng.pick(&RdKind::ALL);
            let wb = kind.word_bits();
            let e = if rng.chance(1, 2) { En::BE } else { En::LE };
            let long_skip = crate::giant::is_giant_index(index) && wb >= 32;
            let g = crate::giant::gen_huge_seek(rng, kind, long_skip);
            return S07 {
                e,
                kind,
                backend: RdBackend::MemStrict,
                elems: Vec::new(),
                ops: Vec::new(),
                lockstep: false,
                align_tail: false,
                huge: Some(g),
                start_words: 0,
            };
        }
        let n = rng.usize_range(1, 12);
        let mut elems = gen_elems(rng, n, true);
        if kind == RdKind::B8 {
            // documented limitation (known finding under C03): u8 readers cannot serve the tables
            for el in elems.iter_mut() {
                if let Elem::Code { code, rtab, .. } = el {
                    *rtab = no_table_variant(rng, *code);
                }
            }
        }
        let nops = rng.usize_range(2, 40);
        let mut ops = Vec::with_capacity(nops);
        for _ in 0..nops {
            ops.push(match rng.below(24) {
                0..=6 => Op7::ReadItem,
                7..=9 => Op7::Bits(*rng.pick(&[0usize, 1, wb - 1, wb.min(64), (wb + 1).min(64), 63, 64, 7, 13])),
                10 => Op7::Skip(rng.usize_range(0, 3 * wb)),
                11 | 12 => Op7::Peek(rng.usize_range(1, kind.max_peek())),
                13 => Op7::Unary,
                14 => Op7::Bytes(rng.usize_range(0, 20)),
                15..=17 => Op7::SeekItem(rng.usize_range(0, 40)),
                18 | 19 => Op7::SeekWord(rng.usize_range(0, 40), *rng.pick(&[-1i8, 0, 1])),
                20 => {
                    if rng.chance(1, 2) {
                        Op7::SeekHere
                    } else {
                        Op7::ToBoundary(rng.chance(1, 2))
                    }
                }
                21 => Op7::SeekStart,
                22 => Op7::SeekEnd,
                _ => Op7::SeekAbs(rng.below(2000)),
            });
        }
        let rate = if rng.chance(1, 2) { rng.below(31) } else { 0 };
        let mut backend = gen_rd_backend(rng, index / 10, rate, nops * 8 + 16);
        // (the configuration replay of C19 compares complete event logs, and nothing is
        // specified after an injected hard fault: benign faults only there)
        let hard_ok = !crate::p01::CLEAN_ARGS.load(std::sync::atomic::Ordering::Relaxed);
        if rng.chance(1, 10) && hard_ok {
            if let Some(p) = backend.plan_mut() {
                let at = rng.usize_range(0, nops * 4);
                p.at.retain(|(c, _)| *c != at);
                p.at.push((at, if rng.chance(1, 2) { Fault::SeekErr } else { Fault::Hard(ErrK::Other) }));
                p.at.sort_by_key(|x| x.0);
            }
        }
        // a quarter of the device-backed runs hands the adapter a byte stream that is already
        // positioned at word 1..3 (a reader created over a stream that is not at offset 0)
        if rng.chance(1, 4) {
            if let Some(p) = backend.plan_mut() {
                p.start_words = rng.usize_range(1, 3);
            }
        }
        let align_tail = rng.chance(1, 4);
        let mut ops = ops;
        if align_tail || rng.chance(1, 6) {
            // make sure the last element is read (through its table option) at least once
            let at = rng.usize_range(0, ops.len());
            ops.insert(at, Op7::ReadItem);
            ops.insert(at, Op7::SeekLastItem);
        }
        S07 {
            e,
            kind,
            backend,
            elems,
            ops,
            lockstep: rng.chance(1, 4),
            align_tail,
            huge: None,
            start_words: if rng.chance(1, 5) { rng.usize_range(1, 3) } else { 0 },
        }
    }

    fn exec(s: &S07, ctx: &mut Ctx) {
        if let Some(g) = &s.huge {
            return crate::giant::huge_seek("C07", s.e, g, ctx);
        }
        ctx.step(vec![format!("e={:?}", s.e), "op=write".into()]);
        let mut w = match write_stream(s.e, Wd::U64, &WrBackend::Vec, &[], &s.elems, ctx) {
            Ok(w) => w,
            Err(_) => return, // writer failures are C03's business
        };
        let elems_store: Vec<Elem>;
        let mut elems: &[Elem] = &s.elems;
        if s.align_tail && !s.elems.is_empty() {
            let total = *w.starts.last().unwrap();
            let fill = (64 - total % 64) % 64;
            let mut v = s.elems.clone();
            let last = v.pop().unwrap();
            if fill > 0 {
                v.push(Elem::Raw { v: mask(0x5AA5_C33C_0FF0_9669, fill), n: fill });
            }
            v.push(last);
            elems_store = v;
            w = match write_stream(s.e, Wd::U64, &WrBackend::Vec, &[], &elems_store, ctx) {
                Ok(w) => w,
                Err(_) => return,
            };
            elems = &elems_store;
            ctx.probe("c07.no_slack_after_last_codeword");
        }
        let mut sim = with_preseek(s.start_words, || RSim::new("C07", s.e, s.kind, &s.backend, &w.bytes));
        ctx.probe_if(sim.pos > 0, "c07.reader_created_at_nonzero_offset");
        let wb = s.kind.word_bits();
        let len = sim.data_bits;
        let nwords = len / wb;
        // lock-step twin: a fresh reader that consumed exactly p bits (memory backend)
        let mut twin: Option<AnyReader> = None;
        let step_checked = |sim: &mut RSim, ctx: &mut Ctx, i: usize, op: &ROp, twin: &mut Option<AnyReader>| -> bool {
            let mut t = sim.tags(&op.name());
            t.push(format!("backend={}", s.backend.name()));
            ctx.step(t);
            let arg = match op {
                ROp::Bits(n) | ROp::Skip(n) | ROp::Peek(n) | ROp::Bytes(n) => *n as u64,
                _ => 0,
            };
            sim.sig(ctx, op, arg, 7);
            if let (Some(f), ROp::Seek(_)) = (sim.fill(), op) {
                ctx.probe_if(f > wb, "c07.seek_with_more_than_a_word_buffered");
            }
            let before = sim.pos;
            match sim.step(ctx, i, op) {
                StepOut::Ok => {}
                StepOut::Err(_) => {
                    if matches!(op, ROp::Seek(_)) {
                        ctx.probe("c07.seek_error_surfaced");
                    }
                    return false;
                }
                StepOut::Failed => return false,
            }
            // bit_pos after every step
            match sim.step(ctx, i, &ROp::BitPos) {
                StepOut::Ok => {}
                _ => return false,
            }
            // lock-step twin: same op on a fresh reader that consumed `before` bits
            if let Some(tw) = twin.as_mut() {
                let same = match op {
                    ROp::Bits(n) if sim.pos == before + n => guard(|| tw.read_bits(*n)).ok().and_then(|r| r.ok()).map(|v| v == sim.model.get_bits(s.e, before, *n)),
                    ROp::Skip(n) => guard(|| tw.skip_bits(*n)).ok().map(|r| r.is_ok()),
                    ROp::Unary => guard(|| tw.read_unary()).ok().and_then(|r| r.ok()).map(|v| v as usize + 1 == sim.pos - before),
                    ROp::Code { code, tab, exp } => guard(|| tw.read_code(*code, *tab)).ok().and_then(|r| r.ok()).map(|v| Some(v) == exp.map(|e| e.0)),
                    ROp::Bytes(n) => {
                        let mut b = vec![0u8; *n];
                        guard(|| tw.io_read(&mut b)).ok().and_then(|r| r.ok()).map(|_| b == sim.model.get_bytes(s.e, before, *n))
                    }
                    ROp::Peek(_) | ROp::BitPos | ROp::Clone { .. } | ROp::Seek(_) | ROp::Bits(_) => Some(true),
                };
                if same != Some(true) {
                    ctx.fail(
                        "C07.differs_from_fresh_reader",
                        format!(
                            "step #{} {:?} from bit {}: the sought reader and a fresh reader that consumed exactly {} bits disagree",
                            i, op, before, before
                        ),
                    );
                    return false;
                }
                ctx.probe("c07.lockstep_checked");
            }
            true
        };
        for (i, op) in s.ops.iter().enumerate() {
            if sim.dead || ctx.failed() {
                break;
            }
            let room = len.saturating_sub(sim.pos);
            let clip = |n: usize| -> usize {
                if sim.zero_ext {
                    n
                } else {
                    n.min(room)
                }
            };
            let rop: Option<ROp> = match op {
                Op7::ReadItem => {
                    match w.starts[..elems.len()].iter().position(|st| *st == sim.pos) {
                        Some(k) => match &elems[k] {
                            Elem::Raw { n, .. } => Some(ROp::Bits(*n)),
                            Elem::Code { code, rtab, v, .. } => {
                                ctx.probe_if(!code.rtables(*rtab).is_empty(), "c07.table_read");
                                Some(ROp::Code {
                                    code: *code,
                                    tab: *rtab,
                                    exp: Some((*v, w.lens[k])),
                                })
                            }
                        },
                        None => Some(ROp::Bits(clip(7))),
                    }
                }
                Op7::Bits(n) => Some(ROp::Bits(clip(*n))),
                Op7::Skip(n) => Some(ROp::Skip(clip(*n))),
                Op7::Peek(n) => {
                    let m = clip(*n);
                    if m == 0 {
                        None
                    } else {
                        Some(ROp::Peek(m))
                    }
                }
                Op7::Unary => match sim.model.unary_at(sim.pos) {
                    Some(x) if sim.pos + x as usize + 1 <= len && x <= 5000 => Some(ROp::Unary),
                    _ => None,
                },
                Op7::Bytes(n) => Some(ROp::Bytes(clip(8 * n) / 8)),
                Op7::SeekItem(k) => Some(ROp::Seek(w.starts[k % w.starts.len()].min(len) as u64)),
                Op7::SeekWord(wi, d) => {
                    let p = (wi % (nwords + 1)) as i64 * wb as i64 + *d as i64;
                    Some(ROp::Seek(p.clamp(0, len as i64) as u64))
                }
                Op7::SeekHere => Some(ROp::Seek(sim.pos.min(len) as u64)),
                Op7::SeekStart => Some(ROp::Seek(0)),
                Op7::SeekEnd => Some(ROp::Seek(len as u64)),
                Op7::SeekAbs(p) => Some(ROp::Seek((*p).min(len as u64))),
                Op7::SeekLastItem => Some(ROp::Seek(w.starts[elems.len().saturating_sub(1)].min(len) as u64)),
                Op7::ToBoundary(read) => {
                    let n = clip((wb - sim.pos % wb).min(64));
                    if *read {
                        Some(ROp::Bits(n))
                    } else {
                        Some(ROp::Skip(n))
                    }
                }
            };
            let Some(rop) = rop else { continue };
            if let ROp::Seek(p) = &rop {
                ctx.probe_if(*p as usize % wb != 0, "c07.seek_unaligned");
                ctx.probe_if(*p as usize == len, "c07.seek_to_end");
                if s.lockstep {
                    // fresh reader that consumes exactly p bits
                    let (mut f, _h) = AnyReader::new(s.e, s.kind, &RdBackend::MemInf, &w.bytes);
                    let mut left = *p as usize;
                    let mut ok = true;
                    while left > 0 && ok {
                        let n = left.min(61);
                        ok = matches!(guard(|| f.read_bits(n)), Ok(Ok(_)));
                        left -= n;
                    }
                    twin = if ok { Some(f) } else { None };
                }
            }
            if !step_checked(&mut sim, ctx, i, &rop, &mut twin) {
                break;
            }
        }
        sim.harvest_faults(ctx);
    }

    fn shrink(s: &S07) -> Vec<S07> {
        if let Some(g) = &s.huge {
            return crate::giant::shrink_huge_seek(g).into_iter().map(|g2| S07 { huge: Some(g2), ..s.clone() }).collect();
        }
        let mut out = Vec::new();
        for ops in shrink_list(&s.ops) {
            out.push(S07 { ops, ..s.clone() });
        }
        for elems in shrink_list(&s.elems) {
            if !elems.is_empty() {
                out.push(S07 { elems, ..s.clone() });
            }
        }
        for (i, op) in s.ops.iter().enumerate() {
            let alts: Vec<Op7> = match op {
                Op7::Bits(n) => shrink_usize(*n).into_iter().map(Op7::Bits).collect(),
                Op7::Skip(n) => shrink_usize(*n).into_iter().map(Op7::Skip).collect(),
                Op7::Peek(n) => shrink_usize(*n).into_iter().filter(|m| *m > 0).map(Op7::Peek).collect(),
                Op7::Bytes(n) => shrink_usize(*n).into_iter().map(Op7::Bytes).collect(),
                Op7::SeekItem(k) => shrink_usize(*k).into_iter().map(Op7::SeekItem).collect(),
                Op7::SeekWord(k, d) => shrink_usize(*k).into_iter().map(|k2| Op7::SeekWord(k2, *d)).collect(),
                Op7::SeekAbs(p) => shrink_u64(*p).into_iter().map(Op7::SeekAbs).collect(),
                _ => vec![],
            };
            for a in alts {
                let mut t = s.clone();
                t.ops[i] = a;
                out.push(t);
            }
        }
        for (i, el) in s.elems.iter().enumerate() {
            if let Elem::Code { code, wtab, rtab, v } = el {
                for u in shrink_u64(*v) {
                    let mut t = s.clone();
                    t.elems[i] = Elem::Code { code: *code, wtab: *wtab, rtab: *rtab, v: u };
                    out.push(t);
                }
            }
        }
        if s.lockstep {
            out.push(S07 { lockstep: false, ..s.clone() });
        }
        if s.align_tail {
            out.push(S07 { align_tail: false, ..s.clone() });
        }
        if let Some(p) = s.backend.plan() {
            if !p.is_empty() {
                for np in p.shrink(16) {
                    let mut t = s.clone();
                    *t.backend.plan_mut().unwrap() = np;
                    out.push(t);
                }
            }
        }
        if !matches!(s.backend, RdBackend::MemStrict | RdBackend::MemInf) {
            out.push(S07 { backend: RdBackend::MemStrict, ..s.clone() });
        }
        out
    }

    fn long_running(s: &S07) -> bool {
        s.huge.as_ref().map(|g| g.ops.iter().any(|o| matches!(o, crate::giant::HsOp::Skip(n) if *n >= 1 << 28))).unwrap_or(false)
    }

    fn rule() -> &'static str {
        "one case = (endianness, reader {buffered u8..u64, unbuffered}, backend {zero-extended, strict, vector/slice writer read back, WordAdapter over SimDisk, WordAdapter over std BufReader; device backends with benign faults at 0-30% and, in a tenth of the runs, one seek error or hard error}, valid stream of 1-12 items, history of 2-40 ops among read-the-item-here (codes with table options, except on u8 readers), fixed-width reads, skips, peeks, unary, io::Read, and seeks to item starts / word boundaries -1,0,+1 / current position / 0 / end / arbitrary p<=len). bit_pos() is checked after every op. distinct_nontrivial = distinct (endianness, reader, op kind, measured buffer fill before the op, width argument, previous op kind) signatures Scale scenarios (one run in 40): a stream of up to 2^62 bits (real head, zero run, real tail) over a sparse word source or the real WordAdapter (directly / through std BufReader) over a sparse byte source; seeks to positions around 2^32, 2^33, 2^35, 2^40, 2^48, 2^56, 2^62 bits, reads / read_unary / skips there, bit_pos after every op; one run in 100 000 skips over 2^32 bits in one call."
    }

    fn components() -> (Vec<&'static str>, Vec<&'static str>) {
        (
            vec!["BitSeek for BufBitReader (bit_pos, set_bit_pos) u8..u64", "BitSeek for BitReader", "WordSeek of MemWordReader / MemWordWriterVec / MemWordWriterSlice / WordAdapter", "std BufReader (Seek)", "code readers with and without tables", "io::Read views"],
            vec!["SimDisk (benign faults, seek errors)", "sparse zero-run word source / byte source (scale scenarios)"],
        )
    }

    fn required_probes(_t: Tier) -> Vec<&'static str> {
        vec![
            "c07.reader_created_at_nonzero_offset",
            "scale.position_above_2^32",
            "scale.skip_2^32",
            "c07.seek_unaligned",
            "c07.seek_to_end",
            "c07.seek_with_more_than_a_word_buffered",
            "c07.table_read",
            "c07.lockstep_checked",
            "c07.seek_error_surfaced",
            "c07.no_slack_after_last_codeword",
        ]
    }

    fn runs(t: Tier) -> u64 {
        match t {
            Tier::Quick => 2_000_000,
            Tier::Thorough => 150_000_000,
        }
    }

    fn assumptions() -> Vec<&'static str> {
        vec![
            "codeword extents are measured from the real writer's output",
            "u8 buffered readers read codes without decoding tables (known finding recorded under C03)",
            "operations needing bits beyond the end of a strict backend are clipped (C09 covers them)",
        ]
    }
}
