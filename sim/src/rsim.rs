//! Reader-side simulation helper shared by the reader families (C02, C05, C07,
//! C09, C12, C14): a real reader of /repo in lock-step with the bit-vector
//! model, one checked step at a time.

use crate::backends::RdStats;
use crate::bits::*;
use crate::fw::*;
use crate::model::{BitModel, En};
use serde::{Deserialize, Serialize};
use std::cell::RefCell;
use std::rc::Rc;

#[derive(Clone, Debug, PartialEq, Eq, Serialize, Deserialize)]
pub enum ROp {
    Bits(usize),
    Unary,
    Skip(usize),
    /// peek n bits, twice
    Peek(usize),
    /// read a code; `exp` = (value, length) when known
    Code { code: Code, tab: u8, exp: Option<(u64, usize)> },
    /// io::Read of len bytes
    Bytes(usize),
    BitPos,
    Seek(u64),
    /// clone the reader; one copy does a probe read of `probe` bits, the other
    /// continues (`switch` = continue on the clone)
    Clone { switch: bool, probe: usize },
}

impl ROp {
    pub fn kind_id(&self) -> u64 {
        match self {
            ROp::Bits(_) => 0,
            ROp::Unary => 1,
            ROp::Skip(_) => 2,
            ROp::Peek(_) => 3,
            ROp::Code { .. } => 4,
            ROp::Bytes(_) => 5,
            ROp::BitPos => 6,
            ROp::Seek(_) => 7,
            ROp::Clone { .. } => 8,
        }
    }
    pub fn name(&self) -> String {
        match self {
            ROp::Bits(_) => "read_bits".into(),
            ROp::Unary => "read_unary".into(),
            ROp::Skip(_) => "skip_bits".into(),
            ROp::Peek(_) => "peek_bits".into(),
            ROp::Code { code, .. } => format!("read_{}", code.name()),
            ROp::Bytes(_) => "io_read".into(),
            ROp::BitPos => "bit_pos".into(),
            ROp::Seek(_) => "set_bit_pos".into(),
            ROp::Clone { .. } => "clone".into(),
        }
    }
}

pub struct RSim {
    pub r: AnyReader,
    pub h: RdHandles,
    pub model: BitModel,
    pub pos: usize,
    pub e: En,
    pub kind: RdKind,
    /// number of data bits the backend holds (multiple of the word size)
    pub data_bits: usize,
    pub zero_ext: bool,
    /// words the reader under test has pulled from its backend since the last
    /// seek, plus the seek target in words (None once unknown)
    pub stats: Rc<RefCell<RdStats>>,
    pub words_base: Option<(u64, u64)>, // (stats.words_read at base, cursor words at base)
    pub pfx: &'static str,
    pub prev_kind: u64,
    /// set after an Err was returned (nothing asserted afterwards)
    pub dead: bool,
}

pub enum StepOut {
    Ok,
    /// the reader returned an error (already classified by the caller's policy)
    Err(String),
    /// violation recorded in ctx
    Failed,
}

impl RSim {
    pub fn new(pfx: &'static str, e: En, kind: RdKind, backend: &RdBackend, image: &[u8]) -> RSim {
        let (r, h) = AnyReader::new(e, kind, backend, image);
        let data_bits = h.n_words * h.word_bits;
        let mut padded = image.to_vec();
        padded.resize(data_bits / 8, 0);
        let model = BitModel::from_bytes(e, &padded);
        let stats = h.stats.clone();
        // a buffered reader built over a backend that is already positioned at word k starts
        // at bit k*W of the stream; the unbuffered reader keeps its own absolute bit index
        // (initially 0) and positions the backend itself before every access
        let start_words = if kind.buffered() { h.start_words } else { 0 };
        RSim {
            r,
            h,
            model,
            pos: start_words * kind.word_bits(),
            e,
            kind,
            data_bits,
            zero_ext: backend.zero_extended(),
            stats,
            words_base: Some((0, start_words as u64)),
            pfx,
            prev_kind: 99,
            dead: false,
        }
    }

    /// Bits currently held in the reader's bit buffer (buffered readers only),
    /// measured from the outside: words pulled from the backend minus bits
    /// consumed.
    pub fn fill(&self) -> Option<usize> {
        if !self.kind.buffered() {
            return None;
        }
        let (base_read, base_cur) = self.words_base?;
        let words = self.stats.borrow().words_read - base_read + base_cur;
        let have = words as usize * self.kind.word_bits();
        have.checked_sub(self.pos)
    }

    fn oid(&self, s: &str) -> String {
        format!("{}.{}", self.pfx, s)
    }

    pub fn tags(&self, op: &str) -> Vec<String> {
        vec![
            format!("e={:?}", self.e),
            format!("reader={:?}", self.kind),
            format!("op={}", op),
        ]
    }

    /// Signature of the state before an op (for distinct_nontrivial).
    pub fn sig(&self, ctx: &mut Ctx, op: &ROp, arg: u64, fam: u64) {
        let fill = self.fill().map(|f| f as u64).unwrap_or(1000 + (self.pos % 64) as u64);
        ctx.sig(&[fam, self.e as u64, self.kind as u64, op.kind_id(), fill, arg, self.prev_kind]);
    }

    /// Can an operation touching bits [pos, pos+n) be asserted on this backend?
    pub fn in_data(&self, n: usize) -> bool {
        self.zero_ext || self.pos + n <= self.data_bits
    }

    /// Execute one op and compare with the model. Only ops whose bits lie within
    /// the data (or any, on zero-extended backends) are value-checked; an Err on
    /// such an op is a violation `<pfx>.spurious_error`.
    fn hard_fired(&self) -> u64 {
        self.h.disk.as_ref().map(|d| d.borrow().hard_fired).unwrap_or(0)
    }

    pub fn step(&mut self, ctx: &mut Ctx, i: usize, op: &ROp) -> StepOut {
        // a non-benign fault injected while this operation runs ends all assertions about the
        // stream, whether or not the library surfaced it as an error (the reader properties say
        // nothing about transient I/O errors; C11 owns that question)
        let before = self.hard_fired();
        let out = self.step_inner(ctx, i, op);
        if self.hard_fired() != before {
            // whatever the operation returned (a value, an error, even a panic of a debug
            // assertion on the inconsistent state left by a swallowed error) is not asserted
            self.dead = true;
            if let StepOut::Failed = out {
                ctx.violation = None;
            }
            ctx.probe("rsim.result_after_injected_hard_fault_not_asserted");
            return StepOut::Err("hard fault injected inside the operation".into());
        }
        out
    }

    fn step_inner(&mut self, ctx: &mut Ctx, i: usize, op: &ROp) -> StepOut {
        ctx.ops += 1;
        let e = self.e;
        macro_rules! lib {
            ($what:expr, $call:expr) => {
                match guard(|| $call) {
                    Ok(r) => r,
                    Err(p) => {
                        ctx.fail(&self.oid("panic"), format!("op #{} {} panicked: {}", i, $what, p));
                        return StepOut::Failed;
                    }
                }
            };
        }
        let out = match op {
            ROp::Bits(n) => {
                let exp = self.model.get_bits(e, self.pos, *n);
                let r = lib!(format!("read_bits({})", n), self.r.read_bits(*n));
                ctx.tr(|| format!("#{} read_bits({}) @{} -> {:?} (model {:#x})", i, n, self.pos, r, exp));
                match r {
                    Ok(v) => {
                        ctx.ev(v);
                        if !self.in_data(*n) {
                            // strict backend returned a value for bits beyond the data: C09's business,
                            // not asserted here
                            self.dead = true;
                            return StepOut::Err("value beyond data".into());
                        }
                        if v != exp {
                            ctx.fail(
                                &self.oid("read_bits"),
                                format!("op #{} read_bits({}) at bit {} returned {:#x}, canonical layout gives {:#x}", i, n, self.pos, v, exp),
                            );
                            return StepOut::Failed;
                        }
                        self.pos += n;
                        ctx.progressed = true;
                        StepOut::Ok
                    }
                    Err(er) => self.err(ctx, i, "read_bits", *n, er.to_string()),
                }
            }
            ROp::Unary => {
                let exp = self.model.unary_at(self.pos);
                let r = lib!("read_unary", self.r.read_unary());
                ctx.tr(|| format!("#{} read_unary @{} -> {:?} (model {:?})", i, self.pos, r, exp));
                match (r, exp) {
                    (Ok(v), Some(x)) => {
                        ctx.ev(v);
                        if v != x {
                            ctx.fail(
                                &self.oid("read_unary"),
                                format!("op #{} read_unary at bit {} returned {}, stream has {} zeros before the next one", i, self.pos, v, x),
                            );
                            return StepOut::Failed;
                        }
                        self.pos += x as usize + 1;
                        ctx.progressed = true;
                        StepOut::Ok
                    }
                    (Ok(_), None) => {
                        self.dead = true;
                        StepOut::Err("value beyond data".into())
                    }
                    (Err(er), Some(x)) => self.err(ctx, i, "read_unary", x as usize + 1, er.to_string()),
                    (Err(er), None) => {
                        self.dead = true;
                        StepOut::Err(er.to_string())
                    }
                }
            }
            ROp::Skip(n) => {
                let r = lib!(format!("skip_bits({})", n), self.r.skip_bits(*n));
                ctx.tr(|| format!("#{} skip_bits({}) @{} -> {:?}", i, n, self.pos, r));
                match r {
                    Ok(()) => {
                        ctx.ev(*n as u64);
                        self.pos += n;
                        StepOut::Ok
                    }
                    Err(er) => self.err(ctx, i, "skip_bits", *n, er.to_string()),
                }
            }
            ROp::Peek(n) => {
                let exp = self.model.get_bits(e, self.pos, *n);
                let r1 = lib!(format!("peek_bits({})", n), self.r.peek_bits(*n));
                let r2 = lib!(format!("peek_bits({})", n), self.r.peek_bits(*n));
                ctx.tr(|| format!("#{} peek_bits({}) x2 @{} -> {:?} {:?} (model {:#x})", i, n, self.pos, r1, r2, exp));
                match (r1, r2) {
                    (Ok(a), Ok(b)) => {
                        ctx.ev(a);
                        if !self.in_data(*n) {
                            return StepOut::Ok; // beyond data on a strict backend: not asserted
                        }
                        // the reader may return more than n bits worth of information? No: the
                        // documented result has the n next bits in the low part; higher bits
                        // are masked by the implementations under test, and the property says
                        // "returns the next n bits".
                        if a != exp || b != exp {
                            ctx.fail(
                                &self.oid("peek_bits"),
                                format!(
                                    "op #{} peek_bits({}) at bit {} returned {:#x} then {:#x}, the next {} bits are {:#x}",
                                    i, n, self.pos, a, b, n, exp
                                ),
                            );
                            return StepOut::Failed;
                        }
                        ctx.progressed = true;
                        StepOut::Ok
                    }
                    (Err(er), _) | (_, Err(er)) => {
                        if self.in_data(*n) {
                            return self.err(ctx, i, "peek_bits", *n, er.to_string());
                        }
                        // failed peek beyond the data leaves the reader usable (no bits consumed)
                        StepOut::Ok
                    }
                }
            }
            ROp::Code { code, tab, exp } => {
                let r = lib!(format!("read {:?} tab {}", code, tab), self.r.read_code(*code, *tab));
                ctx.tr(|| format!("#{} read {:?}/{} @{} -> {:?} (expected {:?})", i, code, tab, self.pos, r, exp));
                match (r, exp) {
                    (Ok(v), Some((x, len))) => {
                        ctx.ev(v);
                        if v != *x {
                            ctx.fail(
                                &self.oid("code_value"),
                                format!("op #{} reading {:?} (variant {}) at bit {} returned {}, the stream holds {}", i, code, tab, self.pos, v, x),
                            );
                            return StepOut::Failed;
                        }
                        self.pos += len;
                        ctx.progressed = true;
                        StepOut::Ok
                    }
                    (Ok(v), None) => {
                        ctx.ev(v);
                        StepOut::Ok
                    }
                    (Err(er), Some((_, len))) => self.err(ctx, i, "read_code", *len, er.to_string()),
                    (Err(er), None) => {
                        self.dead = true;
                        StepOut::Err(er.to_string())
                    }
                }
            }
            ROp::Bytes(len) => {
                // the destination starts at a varying offset from an 8-byte aligned address
                let mut staged = crate::p12::AlignedBytes::new(&vec![0xEEu8; *len], (i + *len) % 8);
                let r = lib!(format!("io::Read::read({} bytes)", len), self.r.io_read(staged.get_mut()));
                let buf: Vec<u8> = staged.get().to_vec();
                let exp = self.model.get_bytes(e, self.pos, *len);
                ctx.tr(|| format!("#{} io_read({}) @{} -> {:?} {:02x?} (model {:02x?})", i, len, self.pos, r.as_ref().map_err(|e| e.kind()), buf, exp));
                match r {
                    Ok(k) => {
                        ctx.ev_bytes(&buf);
                        if !self.in_data(8 * len) {
                            self.dead = true;
                            return StepOut::Err("value beyond data".into());
                        }
                        if k != *len {
                            ctx.fail(
                                &self.oid("io_read_count"),
                                format!("op #{} io::Read::read of a {}-byte buffer returned {}", i, len, k),
                            );
                            return StepOut::Failed;
                        }
                        if buf != exp {
                            ctx.fail(
                                &self.oid("io_read_bytes"),
                                format!("op #{} io::Read::read({}) at bit {} produced {:02x?}, the next stream bytes are {:02x?}", i, len, self.pos, buf, exp),
                            );
                            return StepOut::Failed;
                        }
                        self.pos += 8 * len;
                        ctx.progressed = true;
                        StepOut::Ok
                    }
                    Err(er) => self.err(ctx, i, "io_read", 8 * len, er.to_string()),
                }
            }
            ROp::BitPos => {
                let r = lib!("bit_pos", self.r.bit_pos());
                ctx.tr(|| format!("#{} bit_pos -> {:?} (model {})", i, r, self.pos));
                match r {
                    Ok(p) => {
                        ctx.ev(p);
                        if p != self.pos as u64 {
                            ctx.fail(
                                &self.oid("bit_pos"),
                                format!("op #{} bit_pos() = {} but {} stream bits precede the next bit to be read", i, p, self.pos),
                            );
                            return StepOut::Failed;
                        }
                        StepOut::Ok
                    }
                    Err(er) => self.err(ctx, i, "bit_pos", 0, er.to_string()),
                }
            }
            ROp::Seek(p) => {
                let r = lib!(format!("set_bit_pos({})", p), self.r.set_bit_pos(*p));
                ctx.tr(|| format!("#{} set_bit_pos({}) -> {:?}", i, p, r));
                match r {
                    Ok(()) => {
                        ctx.ev(*p);
                        self.pos = *p as usize;
                        // buffer fill base: backend cursor after the seek
                        let wb = self.kind.word_bits() as u64;
                        let cur = p / wb + if p % wb != 0 { 1 } else { 0 };
                        self.words_base = Some((self.stats.borrow().words_read, cur));
                        ctx.progressed = true;
                        StepOut::Ok
                    }
                    Err(er) => self.err(ctx, i, "set_bit_pos", 0, er.to_string()),
                }
            }
            ROp::Clone { switch, probe } => {
                let c = lib!("clone", self.r.try_clone());
                let c_stats = crate::backends::take_last_cloned_stats();
                let (mut probe_r, keep) = if *switch {
                    let old = std::mem::replace(&mut self.r, c);
                    if let Some(st) = c_stats {
                        // the continuing copy is the clone: follow its counters
                        if let Some((base_read, base_cur)) = self.words_base {
                            let consumed = self.stats.borrow().words_read - base_read;
                            self.words_base = Some((st.borrow().words_read, base_cur + consumed));
                        }
                        self.stats = st;
                    } else {
                        self.words_base = None;
                    }
                    (old, ())
                } else {
                    (c, ())
                };
                let _ = keep;
                // probe read on the copy that does not continue
                if self.in_data(*probe) {
                    let exp = self.model.get_bits(e, self.pos, *probe);
                    let r = lib!("read_bits on the other copy", probe_r.read_bits(*probe));
                    ctx.tr(|| format!("#{} clone(switch={}) probe read_bits({}) -> {:?} (model {:#x})", i, switch, probe, r, exp));
                    match r {
                        Ok(v) => {
                            ctx.ev(v);
                            if v != exp {
                                ctx.fail(
                                    &self.oid("clone"),
                                    format!(
                                        "op #{} after clone the {} copy read_bits({}) at bit {} = {:#x}, model {:#x}",
                                        i,
                                        if *switch { "original" } else { "cloned" },
                                        probe,
                                        self.pos,
                                        v,
                                        exp
                                    ),
                                );
                                return StepOut::Failed;
                            }
                            ctx.probe("rsim.clone_probe_checked");
                        }
                        Err(er) => {
                            return self.err(ctx, i, "clone_probe", *probe, er.to_string());
                        }
                    }
                }
                StepOut::Ok
            }
        };
        self.prev_kind = op.kind_id();
        out
    }

    /// Classify an Err returned by the reader: a violation when every bit the
    /// operation needs lies within the data and no fault was injected.
    fn err(&mut self, ctx: &mut Ctx, i: usize, what: &str, need_bits: usize, msg: String) -> StepOut {
        self.dead = true;
        let hard = self
            .h
            .disk
            .as_ref()
            .map(|d| d.borrow().hard_fired)
            .unwrap_or(0)
            + self.h.faulty_fired.as_ref().map(|f| *f.borrow()).unwrap_or(0);
        if self.in_data(need_bits) && hard == 0 {
            ctx.fail(
                &self.oid("spurious_error"),
                format!(
                    "op #{} {} at bit {} needs {} bit(s), all within the {} data bits, no fault injected, yet it failed: {}",
                    i, what, self.pos, need_bits, self.data_bits, msg
                ),
            );
            return StepOut::Failed;
        }
        StepOut::Err(msg)
    }

    pub fn harvest_faults(&self, ctx: &mut Ctx) {
        if let Some(d) = &self.h.disk {
            for ((f, op), n) in &d.borrow().fired {
                ctx.fault(&format!("{}@{}", f, op), *n);
            }
        }
        if let Some(f) = &self.h.faulty_fired {
            ctx.fault("word_read_refused", *f.borrow());
        }
    }
}

// ------------------------------------------------------------ image patterns

#[derive(Clone, Copy, Debug, PartialEq, Eq, Serialize, Deserialize, Hash)]
pub enum Pattern {
    Random,
    Ones,
    Zeros,
    Sparse,
    ZeroRuns,
}

pub fn gen_image(rng: &mut crate::rng::Rng, pat: Pattern, nbytes: usize) -> Vec<u8> {
    match pat {
        Pattern::Random => (0..nbytes).map(|_| rng.next() as u8).collect(),
        Pattern::Ones => vec![0xFF; nbytes],
        Pattern::Zeros => vec![0; nbytes],
        Pattern::Sparse => {
            let mut v = vec![0u8; nbytes];
            let k = rng.usize_range(1, (nbytes / 4).max(1));
            for _ in 0..k {
                let i = rng.usize_range(0, nbytes - 1);
                v[i] |= 1 << rng.below(8);
            }
            v
        }
        Pattern::ZeroRuns => {
            let mut v = Vec::with_capacity(nbytes);
            while v.len() < nbytes {
                let run = rng.usize_range(0, 40);
                for _ in 0..run {
                    v.push(0);
                }
                let k = rng.usize_range(1, 3);
                for _ in 0..k {
                    v.push(rng.next() as u8);
                }
            }
            v.truncate(nbytes);
            v
        }
    }
}

pub const PATTERNS: [Pattern; 5] = [Pattern::Random, Pattern::Ones, Pattern::Zeros, Pattern::Sparse, Pattern::ZeroRuns];
