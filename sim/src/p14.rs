//! C14 — counting and tracing wrappers are transparent and count exactly.
//!
//! The same history is run twice on the REAL code: on a bare reader / writer and
//! on the same reader / writer wrapped in CountBitReader / CountBitWriter /
//! DbgBitReader / DbgBitWriter (created after a seed-chosen prefix has already
//! been consumed / written on the inner stream), reaching the stream through
//! every path the wrappers expose: fixed-width, unary, parameterless gamma /
//! delta / zeta, the generic *Param traits with tables on (peek +
//! skip_bits_after_peek), omega, pi, Golomb, Rice, exp-Golomb, minimal binary,
//! VByte, skip_bits, peek_bits, copy_to / copy_from, flush.
//! Oracle: identical values / returned lengths / bytes / positions with and
//! without the wrapper; after every step bits_read = bits consumed from the
//! underlying stream since the wrapper was created (inner bit_pos delta of the
//! bare run) and bits_written = bits appended (codeword extents measured from the
//! real output). After a flush both consistent readings are accepted (data bits,
//! or data bits + padding emitted so far).

use crate::backends::*;
use crate::bits::*;
use crate::fw::*;
use crate::items::*;
use crate::model::{BitModel, En};
use crate::rng::Rng;
use dsi_bitstream::prelude::*;
use serde::{Deserialize, Serialize};
use std::mem::ManuallyDrop;

#[derive(Clone, Copy, Debug, PartialEq, Eq, Serialize, Deserialize, Hash)]
pub enum Wrap14 {
    Count,
    Dbg,
}

#[derive(Clone, Debug, Serialize, Deserialize)]
pub enum Side14 {
    Reader {
        kind: RdKind,
        /// bits consumed on the inner reader before the wrapper is created
        pre_bits: usize,
        /// per element: how a Raw element is consumed (0 read_bits, 1 skip_bits, 2 copy_to)
        how: Vec<u8>,
        /// per element: peek this many bits first (0 = no peek)
        peeks: Vec<usize>,
    },
    Writer {
        word: Wd,
        /// bits written on the inner writer before the wrapper is created
        pre: Vec<(u64, usize)>,
        /// per element: 0 plain, 1 flush afterwards, 2 (Raw only) via copy_from
        how: Vec<u8>,
    },
}

#[derive(Clone, Debug, Serialize, Deserialize)]
pub struct S14 {
    pub e: En,
    pub wrap: Wrap14,
    pub elems: Vec<Elem>,
    pub side: Side14,
    /// scale scenario: counters across a unary part / zero run / skip of 2^32 bits
    #[serde(default)]
    pub giant: Option<crate::giant::Giant>,
    /// reader side, counting wrapper: after the last element seek back (through the
    /// wrapper) to the start of element k and read the rest again
    #[serde(default)]
    pub rewind: Option<usize>,
    /// writer side, counting wrapper: the wrapper is used for a section of the stream only:
    /// after the history it is unwrapped (into_inner) and these fields are written on the
    /// writer it returns, which must continue exactly where the bare writer would
    #[serde(default)]
    pub cont: Vec<(u64, usize)>,
}

/// Counting wrappers at scale: the writer wrapper over the sparse recording sink writes a
/// unary part of 2^32 bits, the reader wrapper over the sparse source reads it back and
/// (second reader) skips it in one call; counters are checked after every step, values and
/// the image as in C01 / C02.
macro_rules! giant_count {
    ($E:ty, $e:expr, $W:ty, $RW:ty, $g:expr, $ctx:expr) => {{
        let g: &crate::giant::Giant = $g;
        let e: En = $e;
        let ctx: &mut Ctx = $ctx;
        ctx.step(crate::giant::tags(e, g, "giant_count_write"));
        let sink = AnyWordWrite::<$W>::new(WrInner::Rec { refuse_at: None });
        sink.log.borrow_mut().sparse = true;
        let log = sink.log.clone();
        let mut w = ManuallyDrop::new(CountBitWriter::<$E, _>::new(BufBitWriter::<$E, _>::new(sink)));
        let mut total: u64 = 0;
        let mut p = BitModel::new();
        let mut r = BitModel::new();
        r.bits.push(1);
        let mut steps: Vec<(String, Result<Result<usize, String>, String>, u64)> = Vec::new();
        for (v, n) in &g.pre {
            let x = guard(|| w.write_bits(*v, *n).map_err(|e| e.to_string()));
            total += *n as u64;
            p.push_bits(e, *v, *n);
            steps.push((format!("write_bits(_, {})", n), x, total));
            if w.bits_written as u64 != total {
                break;
            }
        }
        if steps.iter().all(|s| matches!(s.1, Ok(Ok(_)))) && w.bits_written as u64 == total {
            let x = guard(|| w.write_unary(g.q).map_err(|e| e.to_string()));
            total += g.q + 1;
            steps.push((format!("write_unary({})", g.q), x, total));
        }
        if steps.iter().all(|s| matches!(s.1, Ok(Ok(_)))) && w.bits_written as u64 == total {
            for (v, n) in &g.post {
                let x = guard(|| w.write_bits(*v, *n).map_err(|e| e.to_string()));
                total += *n as u64;
                r.push_bits(e, *v, *n);
                steps.push((format!("write_bits(_, {})", n), x, total));
                if w.bits_written as u64 != total {
                    break;
                }
            }
        }
        ctx.ops += steps.len() as u64;
        if let Some((what, res, _)) = steps.iter().find(|s| !matches!(s.1, Ok(Ok(_)))) {
            return ctx.fail("C14.panic", format!("scale scenario: {} through CountBitWriter: {:?}", what, res));
        }
        if w.bits_written as u64 != total {
            let (what, _, _) = steps.last().unwrap();
            return ctx.fail(
                "C14.bits_written",
                format!("scale scenario: after {} bits_written = {} but {} bits have been appended through the wrapper", what, w.bits_written, total),
            );
        }
        if !matches!(guard(|| w.flush().map_err(|e| e.to_string())), Ok(Ok(_))) {
            return ctx.fail("C14.panic", "scale scenario: flush through CountBitWriter failed".into());
        }
        let (count, nz) = crate::giant::expected_sparse(e, <$W as SimWord>::NBITS, &p, g.q, &r);
        {
            let l = log.borrow();
            ctx.ev(l.count);
            if l.count != count || l.nonzero != nz {
                let (c, got) = (l.count, l.nonzero.clone());
                drop(l);
                return ctx.fail(
                    "C14.writer_not_transparent",
                    format!("scale scenario: the sink received {} words, non-zero {:x?}; the bare image has {} words, non-zero {:x?}", c, got, count, nz),
                );
            }
        }
        let _ = guard(|| unsafe { ManuallyDrop::drop(&mut w) });
        ctx.probe("scale.count_writer_2^32");
        // ---- reader side
        ctx.step(crate::giant::tags(e, g, "giant_count_read"));
        let rbits = <$RW as SimWord>::NBITS;
        let (bytes, head_words, zero_words) = crate::giant::sparse_stream(e, rbits, &p, g.q, &r);
        let mk = || {
            let words = bytes_to_words::<$RW>(&bytes);
            let h = head_words.min(words.len());
            BufBitReader::<$E, _>::new(AnyWordRead::<$RW>::new(RdInner::Sparse(SparseWordRead {
                head: std::rc::Rc::new(words[..h].to_vec()),
                zeros: zero_words,
                tail: std::rc::Rc::new(words[h..].to_vec()),
                pos: 0,
            })))
        };
        for skip in [false, true] {
            let mut rd = CountBitReader::<$E, _>::new(mk());
            let mut total: u64 = 0;
            for (v, n) in &g.pre {
                match guard(|| rd.read_bits(*n).map_err(|e| e.to_string())) {
                    Ok(Ok(y)) if y == *v => total += *n as u64,
                    other => return ctx.fail("C14.reader_not_transparent", format!("scale scenario: read_bits({}) through CountBitReader returned {:?}, expected {:#x}", n, other, v)),
                }
            }
            ctx.ops += 2;
            if skip {
                match guard(|| rd.skip_bits(g.q as usize).map_err(|e| e.to_string())) {
                    Ok(Ok(())) => total += g.q,
                    other => return ctx.fail("C14.panic", format!("scale scenario: skip_bits({}) through CountBitReader: {:?}", g.q, other)),
                }
                if rd.bits_read as u64 != total {
                    return ctx.fail(
                        "C14.bits_read",
                        format!("scale scenario: after skip_bits({}) bits_read = {} but {} bits have been consumed", g.q, rd.bits_read, total),
                    );
                }
                match guard(|| rd.read_unary().map_err(|e| e.to_string())) {
                    Ok(Ok(0)) => total += 1,
                    other => return ctx.fail("C14.reader_not_transparent", format!("scale scenario: read_unary after the long skip returned {:?}, expected 0", other)),
                }
            } else {
                match guard(|| rd.read_unary().map_err(|e| e.to_string())) {
                    Ok(Ok(y)) if y == g.q => total += g.q + 1,
                    other => return ctx.fail("C14.reader_not_transparent", format!("scale scenario: read_unary through CountBitReader returned {:?}, expected {}", other, g.q)),
                }
            }
            if rd.bits_read as u64 != total {
                return ctx.fail(
                    "C14.bits_read",
                    format!("scale scenario: after reading a unary code of {} bits bits_read = {} but {} bits have been consumed", g.q + 1, rd.bits_read, total),
                );
            }
            for (v, n) in &g.post {
                match guard(|| rd.read_bits(*n).map_err(|e| e.to_string())) {
                    Ok(Ok(y)) if y == *v => total += *n as u64,
                    other => return ctx.fail("C14.reader_not_transparent", format!("scale scenario: read_bits({}) after the long run returned {:?}, expected {:#x}", n, other, v)),
                }
            }
            ctx.ev(rd.bits_read as u64);
            if rd.bits_read as u64 != total {
                return ctx.fail("C14.bits_read", format!("scale scenario: at the end bits_read = {} but {} bits have been consumed", rd.bits_read, total));
            }
        }
        ctx.progressed = true;
        ctx.probe("scale.count_reader_2^32");
        ctx.sig(&[9014, e as u64, <$W as SimWord>::NBITS as u64, rbits as u64]);
    }};
}

pub struct C14;

#[derive(Debug, Clone, PartialEq, Eq)]
enum Obs {
    Val(u64),
    Unit,
    Err,
}

// ------------------------------------------------------------ reader side

struct RStep {
    obs: Obs,
    peek: Option<Obs>,
    copied: Option<Vec<u8>>,
}

fn run_r<E: Endianness, R>(
    e: En,
    r: &mut R,
    elems: &[Elem],
    how: &[u8],
    peeks: &[usize],
    max_peek: usize,
    after: &mut dyn FnMut(&mut R, usize),
) -> Result<Vec<RStep>, String>
where
    R: CodesRead<E> + GammaReadParam<E> + DeltaReadParam<E> + ZetaReadParam<E>,
    BufBitWriter<E, AnyWordWrite<u64>>: BitWrite<E>,
{
    let mut out = Vec::with_capacity(elems.len());
    for (i, el) in elems.iter().enumerate() {
        let pk = peeks.get(i).copied().unwrap_or(0).min(max_peek);
        let peek = if pk > 0 {
            match guard(|| r.peek_bits(pk)) {
                Ok(Ok(x)) => {
                    let y: u64 = common_traits::CastableInto::cast(x);
                    Some(Obs::Val(y))
                }
                Ok(Err(_)) => Some(Obs::Err),
                Err(p) => return Err(format!("elem #{} peek_bits({}) panicked: {}", i, pk, p)),
            }
        } else {
            None
        };
        let mut copied = None;
        let obs = match el {
            Elem::Code { code, rtab, .. } => match guard(|| read_code_on(r, *code, *rtab)) {
                Ok(Ok(v)) => Obs::Val(v),
                Ok(Err(_)) => Obs::Err,
                Err(p) => return Err(format!("elem #{} read {:?} variant {} panicked: {}", i, code, rtab, p)),
            },
            Elem::Raw { n, .. } => match how.get(i).copied().unwrap_or(0) % 4 {
                3 => {
                    // bulk copy into a destination that fills up part-way: a fixed slice of one
                    // 64-bit word; the copy asks for three words more than the element
                    let store: Vec<u64> = vec![0; 1];
                    let sink = AnyWordWrite::<u64>::new(WrInner::Slice(MemWordWriterSlice::new(SharedVec(Box::leak(Box::new(store)) as *mut Vec<u64>))));
                    let mut w = ManuallyDrop::new(BufBitWriter::<E, _>::new(sink));
                    let res = guard(|| r.copy_to(&mut *w, *n as u64 + 192).is_ok());
                    match res {
                        Ok(true) => Obs::Unit,
                        Ok(false) => Obs::Err,
                        Err(p) => return Err(format!("elem #{} failing copy_to panicked: {}", i, p)),
                    }
                }
                0 => match guard(|| r.read_bits(*n)) {
                    Ok(Ok(v)) => Obs::Val(v),
                    Ok(Err(_)) => Obs::Err,
                    Err(p) => return Err(format!("elem #{} read_bits({}) panicked: {}", i, n, p)),
                },
                1 => match guard(|| r.skip_bits(*n)) {
                    Ok(Ok(())) => Obs::Unit,
                    Ok(Err(_)) => Obs::Err,
                    Err(p) => return Err(format!("elem #{} skip_bits({}) panicked: {}", i, n, p)),
                },
                _ => {
                    let sink = AnyWordWrite::<u64>::new(WrInner::Rec { refuse_at: None });
                    let log = sink.log.clone();
                    let mut w = ManuallyDrop::new(BufBitWriter::<E, _>::new(sink));
                    let res = guard(|| {
                        let a = r.copy_to(&mut *w, *n as u64).is_ok();
                        let b = w.flush().is_ok();
                        a && b
                    });
                    match res {
                        Ok(true) => {
                            let words = log.borrow().words.clone();
                            let mut bytes = Vec::new();
                            for x in words {
                                bytes.extend_from_slice(&(x as u64).to_ne_bytes());
                            }
                            copied = Some(bytes);
                            let _ = guard(|| unsafe { ManuallyDrop::drop(&mut w) });
                            Obs::Unit
                        }
                        Ok(false) => Obs::Err,
                        Err(p) => return Err(format!("elem #{} copy_to({}) panicked: {}", i, n, p)),
                    }
                }
            },
        };
        let _ = e;
        let stop = obs == Obs::Err;
        out.push(RStep { obs, peek, copied });
        after(r, i);
        if stop {
            break;
        }
    }
    Ok(out)
}

/// Bare and wrapped run for one concrete inner reader type.
macro_rules! reader_case {
    ($E:ty, $e:expr, $mk:expr, $s:expr, $kind:expr, $pre:expr, $how:expr, $peeks:expr, $ctx:expr, $lens:expr, $starts:expr) => {{
        let maxp = $kind.max_peek();
        // ---- bare
        let mut bare = $mk;
        let mut ok = true;
        let mut left = $pre;
        while left > 0 && ok {
            let n = left.min(57);
            ok = matches!(guard(|| bare.read_bits(n)), Ok(Ok(_)));
            left -= n;
        }
        if !ok {
            return;
        }
        let mut bare_pos: Vec<u64> = Vec::new();
        let bare_steps = match run_r::<$E, _>($e, &mut bare, &$s.elems, $how, $peeks, maxp, &mut |r, _i| {
            bare_pos.push(r.bit_pos().unwrap_or(u64::MAX));
        }) {
            Ok(v) => v,
            Err(_) => return, // a failure of the bare reader is not this property's business
        };
        // second phase: seek back to the start of element k, read the rest again
        let rewind: Option<(usize, u64)> = match $s.rewind {
            Some(k)
                if k < $s.elems.len()
                    && $s.wrap == Wrap14::Count
                    && !$how.iter().any(|h| *h == 3)
                    && bare_steps.len() == $s.elems.len()
                    && bare_steps.iter().all(|st| st.obs != Obs::Err)
                    && bare_pos.iter().all(|p| *p != u64::MAX) =>
            {
                Some((k, if k == 0 { $pre as u64 } else { bare_pos[k - 1] }))
            }
            _ => None,
        };
        let mut bare_pos2: Vec<u64> = Vec::new();
        let mut bare_steps2: Vec<RStep> = Vec::new();
        if let Some((k, target)) = rewind {
            if !matches!(guard(|| bare.set_bit_pos(target)), Ok(Ok(()))) {
                return;
            }
            bare_steps2 = match run_r::<$E, _>($e, &mut bare, &$s.elems[k..], &$how[k.min($how.len())..], &$peeks[k.min($peeks.len())..], maxp, &mut |r, _i| {
                bare_pos2.push(r.bit_pos().unwrap_or(u64::MAX));
            }) {
                Ok(v) => v,
                Err(_) => return,
            };
        }
        // ---- wrapped
        let mut inner = $mk;
        let mut left = $pre;
        while left > 0 {
            let n = left.min(57);
            let _ = inner.read_bits(n);
            left -= n;
        }
        let mut counts: Vec<usize> = Vec::new();
        let mut wpos: Vec<u64> = Vec::new();
        let mut counts2: Vec<usize> = Vec::new();
        let mut wpos2: Vec<u64> = Vec::new();
        let mut after_seek: Option<(u64, usize)> = None;
        let mut wrapped_steps2: Option<Result<Vec<RStep>, String>> = None;
        let wrapped_steps = match $s.wrap {
            Wrap14::Count => {
                let mut wr = CountBitReader::<$E, _>::new(inner);
                let r1 = run_r::<$E, _>($e, &mut wr, &$s.elems, $how, $peeks, maxp, &mut |r, _i| {
                    counts.push(r.bits_read);
                    wpos.push(r.bit_pos().unwrap_or(u64::MAX));
                });
                if let (Ok(_), Some((k, target))) = (&r1, rewind) {
                    match guard(|| wr.set_bit_pos(target).is_ok()) {
                        Ok(true) => {}
                        other => {
                            $ctx.set_tags(vec![format!("e={:?}", $s.e), "wrap=CountReader".into(), "op=set_bit_pos".into()]);
                            return $ctx.fail(
                                "C14.reader_not_transparent",
                                format!("set_bit_pos({}) through the wrapper: {:?}; the bare reader accepted it", target, other),
                            );
                        }
                    }
                    after_seek = Some((wr.bit_pos().unwrap_or(u64::MAX), wr.bits_read));
                    wrapped_steps2 = Some(run_r::<$E, _>($e, &mut wr, &$s.elems[k..], &$how[k.min($how.len())..], &$peeks[k.min($peeks.len())..], maxp, &mut |r, _i| {
                        counts2.push(r.bits_read);
                        wpos2.push(r.bit_pos().unwrap_or(u64::MAX));
                    }));
                }
                r1
            }
            Wrap14::Dbg => {
                let mut wr = DbgBitReader::<$E, _>::new(inner);
                run_r::<$E, _>($e, &mut wr, &$s.elems, $how, $peeks, maxp, &mut |_r, _i| {})
            }
        };
        let wrapped_steps = match wrapped_steps {
            Ok(v) => v,
            Err(m) => return $ctx.fail("C14.panic", format!("wrapped reader: {}", m)),
        };
        compare_reader($s, $ctx, &bare_steps, &wrapped_steps, &bare_pos, &counts, &wpos, $pre as u64, $lens, $starts);
        if let (false, Some((k, target)), Some(w2), Some((pos_after_seek, count_at_seek))) = ($ctx.failed(), rewind, wrapped_steps2, after_seek) {
            let w2 = match w2 {
                Ok(v) => v,
                Err(m) => return $ctx.fail("C14.panic", format!("wrapped reader after set_bit_pos: {}", m)),
            };
            compare_rewind($s, $ctx, k, target, pos_after_seek, count_at_seek, &bare_steps2, &w2, &bare_pos2, &counts2, &wpos2);
        }
    }};
}

/// Second phase of a reader case: after `set_bit_pos(target)` through the counting wrapper the
/// position, every value and every later position equal those of the bare reader, and the
/// counter grows by exactly the bits each operation consumes.
#[allow(clippy::too_many_arguments)]
fn compare_rewind(
    s: &S14,
    ctx: &mut Ctx,
    k: usize,
    target: u64,
    pos_after_seek: u64,
    count_at_seek: usize,
    bare: &[RStep],
    wrapped: &[RStep],
    bare_pos: &[u64],
    counts: &[usize],
    wpos: &[u64],
) {
    let tg = |op: &str| vec![format!("e={:?}", s.e), "wrap=CountReader".to_string(), format!("op={}", op), "phase=after_seek".to_string()];
    ctx.step(tg("set_bit_pos"));
    ctx.probe("c14.seek_back_through_wrapper");
    if pos_after_seek != target {
        return ctx.fail(
            "C14.position_not_transparent",
            format!("after set_bit_pos({}) through the wrapper (start of elem #{}), bit_pos() through the wrapper is {}", target, k, pos_after_seek),
        );
    }
    let mut prev_pos = target;
    let mut prev_count = count_at_seek;
    for i in 0..bare.len().min(wrapped.len()) {
        ctx.step(tg("read_again"));
        ctx.ops += 1;
        if bare[i].obs != wrapped[i].obs || bare[i].peek != wrapped[i].peek || bare[i].copied != wrapped[i].copied {
            return ctx.fail(
                "C14.reader_not_transparent",
                format!(
                    "after seeking back to elem #{} through the wrapper, elem #{}: bare reader {:?} (peek {:?}), wrapped reader {:?} (peek {:?})",
                    k,
                    k + i,
                    bare[i].obs,
                    bare[i].peek,
                    wrapped[i].obs,
                    wrapped[i].peek
                ),
            );
        }
        if bare_pos[i] != wpos[i] {
            return ctx.fail(
                "C14.position_not_transparent",
                format!("after seeking back to elem #{} through the wrapper, elem #{}: bit_pos is {} on the bare reader, {} through the wrapper", k, k + i, bare_pos[i], wpos[i]),
            );
        }
        ctx.ev(counts[i] as u64);
        if (counts[i] - prev_count) as u64 != wpos[i] - prev_pos {
            return ctx.fail(
                "C14.bits_read",
                format!(
                    "after seeking back to elem #{}, elem #{}: bits_read grew by {} but {} bits were consumed from the underlying stream",
                    k,
                    k + i,
                    counts[i] - prev_count,
                    wpos[i] - prev_pos
                ),
            );
        }
        prev_pos = wpos[i];
        prev_count = counts[i];
    }
    ctx.progressed = true;
}

fn compare_reader(
    s: &S14,
    ctx: &mut Ctx,
    bare: &[RStep],
    wrapped: &[RStep],
    bare_pos: &[u64],
    counts: &[usize],
    wpos: &[u64],
    pre: u64,
    _lens: &[usize],
    _starts: &[usize],
) {
    let n = bare.len().min(wrapped.len());
    for i in 0..n {
        let what = match &s.elems[i] {
            Elem::Code { code, rtab, .. } => format!("read_{}:v{}", code.name(), rtab % code.n_rtabs()),
            Elem::Raw { .. } => match &s.side {
                Side14::Reader { how, .. } => ["read_bits", "skip_bits", "copy_to", "copy_to_failing_destination"][(how.get(i).copied().unwrap_or(0) % 4) as usize].to_string(),
                _ => "raw".into(),
            },
        };
        let uses_peek_path = match &s.elems[i] {
            Elem::Code { code, rtab, .. } => !code.rtables(*rtab).is_empty() && (*rtab % code.n_rtabs()) < code.n_rtabs() - 1 || matches!(code, Code::Omega),
            _ => false,
        };
        ctx.step(vec![
            format!("e={:?}", s.e),
            format!("wrap={:?}Reader", s.wrap),
            format!("op={}", what),
        ]);
        ctx.ops += 1;
        ctx.probe_if(uses_peek_path, "c14.read_through_peek_and_skip_after_peek");
        ctx.sig(&[14, s.e as u64, s.wrap as u64, crate::fw_hash(&what), uses_peek_path as u64]);
        ctx.ev(match &wrapped[i].obs {
            Obs::Val(v) => *v,
            Obs::Unit => 1,
            Obs::Err => u64::MAX,
        });
        if what == "copy_to_failing_destination" {
            // after a copy that failed part-way positions are unspecified, so bare and wrapped
            // are not compared; but the counter must still equal the bits really consumed
            // from the underlying stream, which the wrapper's own inner position tells
            ctx.probe("c14.failing_copy_to");
            if bare[i].obs != Obs::Err || wrapped[i].obs != Obs::Err {
                return ctx.fail(
                    "C14.reader_not_transparent",
                    format!("elem #{}: a copy into a destination that fills up returned {:?} (bare) / {:?} (wrapped)", i, bare[i].obs, wrapped[i].obs),
                );
            }
            if s.wrap == Wrap14::Count && wpos[i] != u64::MAX {
                let consumed = wpos[i] - pre;
                if counts[i] as u64 != consumed {
                    return ctx.fail(
                        "C14.bits_read",
                        format!(
                            "elem #{} (copy_to failing part-way): bits_read = {} but {} bits have been consumed from the underlying stream since the wrapper was created",
                            i, counts[i], consumed
                        ),
                    );
                }
            }
            ctx.progressed = true;
            return;
        }
        if bare[i].obs != wrapped[i].obs || bare[i].peek != wrapped[i].peek || bare[i].copied != wrapped[i].copied {
            return ctx.fail(
                "C14.reader_not_transparent",
                format!(
                    "elem #{} ({}): bare reader gives {:?} (peek {:?}, copied {:02x?}), wrapped reader gives {:?} (peek {:?}, copied {:02x?})",
                    i, what, bare[i].obs, bare[i].peek, bare[i].copied, wrapped[i].obs, wrapped[i].peek, wrapped[i].copied
                ),
            );
        }
        ctx.progressed = true;
        if bare[i].obs == Obs::Err {
            return;
        }
        if s.wrap == Wrap14::Count {
            if wpos[i] != bare_pos[i] {
                return ctx.fail(
                    "C14.reader_position",
                    format!("elem #{} ({}): position through the wrapper {} differs from the bare reader's {}", i, what, wpos[i], bare_pos[i]),
                );
            }
            let consumed = bare_pos[i] - pre;
            ctx.ev(counts[i] as u64);
            if counts[i] as u64 != consumed {
                return ctx.fail(
                    "C14.bits_read",
                    format!(
                        "elem #{} ({}): bits_read = {} but {} bits have been consumed from the underlying stream since the wrapper was created",
                        i, what, counts[i], consumed
                    ),
                );
            }
        }
    }
    if bare.len() != wrapped.len() {
        ctx.fail(
            "C14.reader_not_transparent",
            format!("bare run made {} steps, wrapped run {}", bare.len(), wrapped.len()),
        );
    }
}

// ------------------------------------------------------------ writer side

struct WStep {
    ret: Obs,
    flush_ret: Option<Obs>,
}

fn run_w<E: Endianness, W>(
    e: En,
    w: &mut W,
    elems: &[Elem],
    how: &[u8],
    after: &mut dyn FnMut(&mut W, usize, bool),
) -> Result<Vec<WStep>, String>
where
    W: CodesWrite<E> + GammaWriteParam<E> + DeltaWriteParam<E> + ZetaWriteParam<E>,
    BufBitReader<E, AnyWordRead<u64>>: BitRead<E>,
{
    let mut out = Vec::new();
    for (i, el) in elems.iter().enumerate() {
        let h = how.get(i).copied().unwrap_or(0) % 4;
        let ret = match el {
            Elem::Code { code, wtab, v, .. } => match guard(|| write_code_on(w, *code, *wtab, *v)) {
                Ok(Ok(k)) => Obs::Val(k as u64),
                Ok(Err(_)) => Obs::Err,
                Err(p) => return Err(format!("elem #{} write {:?} variant {} value {} panicked: {}", i, code, wtab, v, p)),
            },
            Elem::Raw { v, n } if h == 3 => {
                // copy_from a strict source that ends part-way: it holds the element plus 256
                // more bits, the copy asks for 200 bits beyond that
                let mut m = BitModel::new();
                m.push_bits(e, *v, *n);
                for k in 0..4u64 {
                    m.push_bits(e, 0x9E37_79B9_7F4A_7C15u64.rotate_left(k as u32 * 7), 64);
                }
                let avail = m.len() / 64 * 64;
                m.bits.truncate(avail);
                let words: Vec<u64> = bytes_to_words::<u64>(&m.to_bytes(e));
                let mut rd = BufBitReader::<E, _>::new(AnyWordRead::new(RdInner::MemStrict(MemWordReader::new_strict(words))));
                match guard(|| w.copy_from(&mut rd, avail as u64 + 200)) {
                    Ok(Ok(())) => Obs::Unit,
                    Ok(Err(_)) => Obs::Err,
                    Err(p) => return Err(format!("elem #{} failing copy_from panicked: {}", i, p)),
                }
            }
            Elem::Raw { v, n } => {
                if h == 2 {
                    // copy_from a scratch reader holding exactly these bits
                    let mut m = BitModel::new();
                    m.push_bits(e, *v, *n);
                    m.pad_to_multiple(64);
                    let words: Vec<u64> = bytes_to_words::<u64>(&m.to_bytes(e));
                    let mut rd = BufBitReader::<E, _>::new(AnyWordRead::new(RdInner::MemInf(MemWordReader::new(words))));
                    match guard(|| w.copy_from(&mut rd, *n as u64)) {
                        Ok(Ok(())) => Obs::Unit,
                        Ok(Err(_)) => Obs::Err,
                        Err(p) => return Err(format!("elem #{} copy_from({}) panicked: {}", i, n, p)),
                    }
                } else {
                    match guard(|| w.write_bits(*v, *n)) {
                        Ok(Ok(k)) => Obs::Val(k as u64),
                        Ok(Err(_)) => Obs::Err,
                        Err(p) => return Err(format!("elem #{} write_bits panicked: {}", i, p)),
                    }
                }
            }
        };
        after(w, i, false);
        if h == 3 && matches!(el, Elem::Raw { .. }) {
            let f = match guard(|| w.flush()) {
                Ok(Ok(k)) => Obs::Val(k as u64),
                Ok(Err(_)) => Obs::Err,
                Err(p) => return Err(format!("elem #{} flush after a failed copy panicked: {}", i, p)),
            };
            after(w, i, true);
            out.push(WStep { ret, flush_ret: Some(f) });
            break;
        }
        let flush_ret = if h == 1 {
            let f = match guard(|| w.flush()) {
                Ok(Ok(k)) => Obs::Val(k as u64),
                Ok(Err(_)) => Obs::Err,
                Err(p) => return Err(format!("elem #{} flush panicked: {}", i, p)),
            };
            after(w, i, true);
            Some(f)
        } else {
            None
        };
        out.push(WStep { ret, flush_ret });
    }
    Ok(out)
}

macro_rules! writer_case {
    ($E:ty, $e:expr, $W:ty, $word:expr, $s:expr, $pre:expr, $how:expr, $ctx:expr) => {{
        // ---- bare
        let sink = AnyWordWrite::<$W>::new(WrInner::Rec { refuse_at: None });
        let bare_log = sink.log.clone();
        let mut bare = ManuallyDrop::new(BufBitWriter::<$E, _>::new(sink));
        for (v, n) in $pre {
            if !matches!(guard(|| bare.write_bits(*v, *n)), Ok(Ok(_))) {
                return;
            }
        }
        let bare_steps = match run_w::<$E, _>($e, &mut *bare, &$s.elems, $how, &mut |_w, _i, _f| {}) {
            Ok(v) => v,
            Err(_) => return,
        };
        let cont: &[(u64, usize)] = if $s.wrap == Wrap14::Count { &$s.cont } else { &[] };
        for (v, n) in cont {
            if !matches!(guard(|| bare.write_bits(*v, *n)), Ok(Ok(_))) {
                return;
            }
        }
        if !matches!(guard(|| bare.flush()), Ok(Ok(_))) {
            return;
        }
        let bare_words = bare_log.borrow().words.clone();
        let _ = guard(|| unsafe { ManuallyDrop::drop(&mut bare) });
        // ---- wrapped
        let sink = AnyWordWrite::<$W>::new(WrInner::Rec { refuse_at: None });
        let w_log = sink.log.clone();
        let mut inner = BufBitWriter::<$E, _>::new(sink);
        for (v, n) in $pre {
            let _ = inner.write_bits(*v, *n);
        }
        let mut counts: Vec<(usize, usize, bool, usize)> = Vec::new();
        let (wrapped_steps, wrapped_words) = match $s.wrap {
            Wrap14::Count => {
                let mut wr = ManuallyDrop::new(CountBitWriter::<$E, _>::new(inner));
                let wl2 = w_log.clone();
                let r = run_w::<$E, _>($e, &mut *wr, &$s.elems, $how, &mut |w, i, f| counts.push((i, w.bits_written, f, wl2.borrow().words.len())));
                if cont.is_empty() {
                    let fl = guard(|| wr.flush());
                    let words = w_log.borrow().words.clone();
                    if matches!(fl, Ok(Ok(_))) {
                        let _ = guard(|| unsafe { ManuallyDrop::drop(&mut wr) });
                    }
                    (r, words)
                } else {
                    // the wrapper covered a section of the stream only: unwrap, carry on with
                    // the writer it gives back
                    $ctx.probe("c14.unwrap_mid_stream_and_continue");
                    let wrapper = unsafe { ManuallyDrop::take(&mut wr) };
                    let mut inner2 = match guard(|| wrapper.into_inner()) {
                        Ok(w) => ManuallyDrop::new(w),
                        Err(p) => return $ctx.fail("C14.panic", format!("CountBitWriter::into_inner panicked: {}", p)),
                    };
                    for (v, n) in cont {
                        if !matches!(guard(|| inner2.write_bits(*v, *n)), Ok(Ok(_))) {
                            return $ctx.fail("C14.writer_not_transparent", "a write on the writer returned by into_inner failed".into());
                        }
                    }
                    let fl = guard(|| inner2.flush());
                    let words = w_log.borrow().words.clone();
                    if matches!(fl, Ok(Ok(_))) {
                        let _ = guard(|| unsafe { ManuallyDrop::drop(&mut inner2) });
                    }
                    (r, words)
                }
            }
            Wrap14::Dbg => {
                let mut wr = ManuallyDrop::new(DbgBitWriter::<$E, _>::new(inner));
                let r = run_w::<$E, _>($e, &mut *wr, &$s.elems, $how, &mut |_w, _i, _f| {});
                let fl = guard(|| wr.flush());
                let words = w_log.borrow().words.clone();
                if matches!(fl, Ok(Ok(_))) {
                    let _ = guard(|| unsafe { ManuallyDrop::drop(&mut wr) });
                }
                (r, words)
            }
        };
        let wrapped_steps = match wrapped_steps {
            Ok(v) => v,
            Err(m) => return $ctx.fail("C14.panic", format!("wrapped writer: {}", m)),
        };
        compare_writer($s, $ctx, $word, $how, &bare_steps, &wrapped_steps, &bare_words, &wrapped_words, &counts);
    }};
}

fn compare_writer(
    s: &S14,
    ctx: &mut Ctx,
    word: Wd,
    how: &[u8],
    bare: &[WStep],
    wrapped: &[WStep],
    bare_words: &[u128],
    wrapped_words: &[u128],
    counts: &[(usize, usize, bool, usize)],
) {
    let wbits = word.bits();
    // exact number of bits each element appends, measured from the real output
    let mut appended: Vec<usize> = Vec::new();
    for el in &s.elems {
        match el {
            Elem::Raw { n, .. } => appended.push(*n),
            Elem::Code { code, wtab, v, .. } => match measure_len(s.e, *code, *wtab, *v) {
                Ok(l) => appended.push(l),
                Err(_) => return,
            },
        }
    }
    let pre_bits: usize = match &s.side {
        Side14::Writer { pre, .. } => pre.iter().map(|x| x.1).sum(),
        _ => 0,
    };
    let n = bare.len().min(wrapped.len());
    let mut data_bits = 0usize; // appended through the wrapper
    let mut stream_bits = pre_bits; // position in the underlying stream
    let mut padding = 0usize;
    let mut flushed_once = false;
    let mut ci = 0usize;
    for i in 0..n {
        let h = how.get(i).copied().unwrap_or(0) % 4;
        let failing = h == 3 && matches!(s.elems[i], Elem::Raw { .. });
        let what = match &s.elems[i] {
            Elem::Code { code, wtab, .. } => format!("write_{}:v{}", code.name(), wtab % code.n_wtabs()),
            Elem::Raw { .. } => match h {
                2 => "copy_from".to_string(),
                3 => "copy_from_failing_source".to_string(),
                _ => "write_bits".to_string(),
            },
        };
        ctx.step(vec![
            format!("e={:?}", s.e),
            format!("wrap={:?}Writer", s.wrap),
            format!("op={}", what),
        ]);
        ctx.ops += 1;
        ctx.sig(&[141, s.e as u64, s.wrap as u64, word as u64, crate::fw_hash(&what), h as u64]);
        if failing {
            // a bulk copy whose source ends part-way: the state of the streams afterwards is
            // unspecified, so bare and wrapped are not compared; the counter must still equal
            // the bits that really reached the underlying stream, which the number of words
            // delivered after the flush brackets to within one word
            ctx.probe("c14.failing_copy_from");
            if bare[i].ret != Obs::Err || wrapped[i].ret != Obs::Err {
                return ctx.fail(
                    "C14.writer_not_transparent",
                    format!("elem #{}: a copy from a source that ends part-way returned {:?} (bare) / {:?} (wrapped)", i, bare[i].ret, wrapped[i].ret),
                );
            }
            if s.wrap == Wrap14::Count {
                let (_, c, _, _) = counts[ci];
                let (_, _c2, _, words_after_flush) = counts[ci + 1];
                let total = words_after_flush * wbits; // stream bits incl. padding, after the flush
                let hi = total.saturating_sub(stream_bits); // at most this many bits were appended by the copy
                let lo = (total + 1).saturating_sub(stream_bits + wbits); // and at least this many
                let through = c as i64 - data_bits as i64;
                let through_pad = through - padding as i64;
                let ok = |x: i64| x >= lo as i64 && x <= hi as i64;
                if !(ok(through) || (flushed_once && ok(through_pad))) {
                    return ctx.fail(
                        "C14.bits_written",
                        format!(
                            "elem #{} (copy_from failing part-way): bits_written grew by {} but between {} and {} bits of the copy reached the underlying stream",
                            i, through, lo, hi
                        ),
                    );
                }
            }
            ctx.progressed = true;
            return;
        }
        if bare[i].ret != wrapped[i].ret || bare[i].flush_ret != wrapped[i].flush_ret {
            return ctx.fail(
                "C14.writer_not_transparent",
                format!(
                    "elem #{} ({}): bare writer returned {:?} (flush {:?}), wrapped writer returned {:?} (flush {:?})",
                    i, what, bare[i].ret, bare[i].flush_ret, wrapped[i].ret, wrapped[i].flush_ret
                ),
            );
        }
        ctx.progressed = true;
        data_bits += appended[i];
        stream_bits += appended[i];
        if s.wrap == Wrap14::Count {
            // after the op itself
            let (_, c, _, _) = counts[ci];
            ci += 1;
            ctx.ev(c as u64);
            let ok = c == data_bits || (flushed_once && c == data_bits + padding);
            if !ok {
                return ctx.fail(
                    "C14.bits_written",
                    format!(
                        "elem #{} ({}): bits_written = {} but {} bits have been appended through the wrapper{}",
                        i,
                        what,
                        c,
                        data_bits,
                        if flushed_once { format!(" (+{} padding bits emitted by flushes)", padding) } else { String::new() }
                    ),
                );
            }
            if h == 1 {
                let pad = (wbits - stream_bits % wbits) % wbits;
                padding += pad;
                stream_bits += pad;
                flushed_once = true;
                let (_, c2, _, _) = counts[ci];
                ci += 1;
                ctx.ev(c2 as u64);
                ctx.probe("c14.counter_checked_after_flush");
                // both consistent readings are accepted: data bits only, or data bits plus
                // the zero padding emitted so far
                if c2 != data_bits && c2 != data_bits + padding {
                    return ctx.fail(
                        "C14.bits_written",
                        format!(
                            "elem #{} ({}) then flush: bits_written = {} but {} data bits have been appended through the wrapper and {} padding bits emitted (neither reading matches)",
                            i, what, c2, data_bits, padding
                        ),
                    );
                }
            }
        } else if h == 1 {
            let pad = (wbits - stream_bits % wbits) % wbits;
            stream_bits += pad;
        }
    }
    ctx.set_tags(vec![format!("e={:?}", s.e), format!("wrap={:?}Writer", s.wrap), "op=final_image".into()]);
    if bare_words != wrapped_words {
        ctx.fail(
            "C14.writer_not_transparent",
            format!("final images differ: bare {:x?}, wrapped {:x?}", bare_words, wrapped_words),
        );
    }
}

// ------------------------------------------------------------ family

impl Family for C14 {
    type Scn = S14;
    const ID: &'static str = "C14";

    fn gen(rng: &mut Rng, _tier: Tier, index: u64) -> S14 {
        let e = if index % 2 == 0 { En::BE } else { En::LE };
        let wrap = if (index / 2) % 2 == 0 { Wrap14::Count } else { Wrap14::Dbg };
        if crate::giant::is_giant_index(index) {
            let g = crate::giant::unary_only(crate::giant::gen_giant(rng));
            return S14 {
                e: if rng.chance(1, 2) { En::BE } else { En::LE },
                wrap: Wrap14::Count,
                elems: Vec::new(),
                side: Side14::Writer { word: g.wword, pre: Vec::new(), how: Vec::new() },
                giant: Some(g),
                rewind: None,
                cont: Vec::new(),
            };
        }
        let n = rng.usize_range(1, 10);
        let elems = gen_elems(rng, n, true);
        let m = elems.len();
        if (index / 4) % 2 == 0 {
            let kind = [RdKind::B8, RdKind::B16, RdKind::B32, RdKind::B64, RdKind::U64][((index / 8) % 5) as usize];
            let mut elems = elems;
            if kind == RdKind::B8 {
                // u8 readers cannot serve the decoding tables (recorded known finding)
                for el in elems.iter_mut() {
                    if let Elem::Code { code, rtab, .. } = el {
                        let mut t = *rtab % code.n_rtabs();
                        while !code.rtables(t).is_empty() {
                            t = (t + 1) % code.n_rtabs();
                        }
                        *rtab = t;
                    }
                }
            }
            S14 {
                e,
                wrap,
                elems,
                side: Side14::Reader {
                    kind,
                    pre_bits: rng.usize_range(0, 2 * kind.word_bits() + 1),
                    how: (0..m).map(|_| if rng.chance(1, 12) { 3 } else { rng.below(3) as u8 }).collect(),
                    peeks: (0..m)
                        .map(|_| if rng.chance(1, 4) { rng.usize_range(1, kind.max_peek()) } else { 0 })
                        .collect(),
                },
                giant: None,
                rewind: if rng.chance(1, 3) { Some(rng.usize_range(0, m.saturating_sub(1))) } else { None },
                cont: Vec::new(),
            }
        } else {
            let word = [Wd::U8, Wd::U16, Wd::U32, Wd::U64, Wd::U128][((index / 8) % 5) as usize];
            let mut pre = Vec::new();
            let mut left = rng.usize_range(0, 2 * word.bits() + 1);
            while left > 0 {
                let k = left.min(rng.usize_range(1, 64));
                pre.push((mask(rng.next(), k), k));
                left -= k;
            }
            S14 {
                e,
                wrap,
                elems,
                side: Side14::Writer {
                    word,
                    pre,
                    how: (0..m).map(|_| if rng.chance(1, 12) { 3 } else { *rng.pick(&[0u8, 0, 0, 1, 2]) }).collect(),
                },
                giant: None,
                rewind: None,
                cont: if rng.chance(1, 3) {
                    (0..rng.usize_range(1, 3))
                        .map(|_| {
                            let k = rng.usize_range(1, 64);
                            (mask(rng.next() | 1, k), k)
                        })
                        .collect()
                } else {
                    Vec::new()
                },
            }
        }
    }

    fn exec(s: &S14, ctx: &mut Ctx) {
        if let Some(g) = &s.giant {
            match (s.e, g.wword) {
                (En::BE, Wd::U32) => giant_count!(BE, s.e, u32, u32, g, ctx),
                (En::LE, Wd::U32) => giant_count!(LE, s.e, u32, u32, g, ctx),
                (En::BE, Wd::U128) => giant_count!(BE, s.e, u128, u64, g, ctx),
                (En::LE, Wd::U128) => giant_count!(LE, s.e, u128, u64, g, ctx),
                (En::BE, _) => giant_count!(BE, s.e, u64, u64, g, ctx),
                (En::LE, _) => giant_count!(LE, s.e, u64, u64, g, ctx),
            }
            return;
        }
        match &s.side {
            Side14::Reader { kind, pre_bits, how, peeks } => {
                // the stream: pre_bits of filler, then the elements
                let mut offset = Vec::new();
                let mut left = *pre_bits;
                while left > 0 {
                    let n = left.min(61);
                    offset.push((mask(0x5DEECE66D_u64.wrapping_mul(left as u64 + 7), n), n));
                    left -= n;
                }
                ctx.set_tags(vec![format!("e={:?}", s.e), "op=write".into()]);
                let w = match write_stream(s.e, Wd::U64, &WrBackend::Vec, &offset, &s.elems, ctx) {
                    Ok(w) => w,
                    Err(_) => return,
                };
                let mut bytes = w.bytes.clone();
                bytes.extend_from_slice(&[0u8; 16]);
                let pre = *pre_bits;
                macro_rules! buf {
                    ($E:ty, $W:ty) => {
                        reader_case!(
                            $E,
                            s.e,
                            BufBitReader::<$E, _>::new(AnyWordRead::<$W>::new(RdInner::MemInf(MemWordReader::new(bytes_to_words::<$W>(&bytes))))),
                            s,
                            kind,
                            pre,
                            how,
                            peeks,
                            ctx,
                            &w.lens,
                            &w.starts
                        )
                    };
                }
                macro_rules! unbuf {
                    ($E:ty) => {
                        reader_case!(
                            $E,
                            s.e,
                            BitReader::<$E, _>::new(AnyWordRead::<u64>::new(RdInner::MemInf(MemWordReader::new(bytes_to_words::<u64>(&bytes))))),
                            s,
                            kind,
                            pre,
                            how,
                            peeks,
                            ctx,
                            &w.lens,
                            &w.starts
                        )
                    };
                }
                match (s.e, kind) {
                    (En::BE, RdKind::B8) => buf!(BE, u8),
                    (En::LE, RdKind::B8) => buf!(LE, u8),
                    (En::BE, RdKind::B16) => buf!(BE, u16),
                    (En::BE, RdKind::B32) => buf!(BE, u32),
                    (En::BE, RdKind::B64) => buf!(BE, u64),
                    (En::BE, _) => unbuf!(BE),
                    (En::LE, RdKind::B16) => buf!(LE, u16),
                    (En::LE, RdKind::B32) => buf!(LE, u32),
                    (En::LE, RdKind::B64) => buf!(LE, u64),
                    (En::LE, _) => unbuf!(LE),
                }
            }
            Side14::Writer { word, pre, how } => {
                macro_rules! wc {
                    ($E:ty, $W:ty) => {
                        writer_case!($E, s.e, $W, *word, s, pre, how, ctx)
                    };
                }
                match (s.e, word) {
                    (En::BE, Wd::U8) => wc!(BE, u8),
                    (En::LE, Wd::U8) => wc!(LE, u8),
                    (En::BE, Wd::U16) => wc!(BE, u16),
                    (En::BE, Wd::U32) => wc!(BE, u32),
                    (En::BE, Wd::U64) => wc!(BE, u64),
                    (En::BE, _) => wc!(BE, u128),
                    (En::LE, Wd::U16) => wc!(LE, u16),
                    (En::LE, Wd::U32) => wc!(LE, u32),
                    (En::LE, Wd::U64) => wc!(LE, u64),
                    (En::LE, _) => wc!(LE, u128),
                }
            }
        }
    }

    fn shrink(s: &S14) -> Vec<S14> {
        let mut out = Vec::new();
        if !s.cont.is_empty() {
            out.push(S14 { cont: Vec::new(), ..s.clone() });
        }
        if let Some(g) = &s.giant {
            for g2 in crate::giant::shrink_giant(g) {
                out.push(S14 { giant: Some(g2), ..s.clone() });
            }
            return out;
        }
        // remove element k together with its per-element settings
        for k in 0..s.elems.len() {
            if s.elems.len() == 1 {
                break;
            }
            let mut t = s.clone();
            t.elems.remove(k);
            match &mut t.side {
                Side14::Reader { how, peeks, .. } => {
                    if k < how.len() {
                        how.remove(k);
                    }
                    if k < peeks.len() {
                        peeks.remove(k);
                    }
                }
                Side14::Writer { how, .. } => {
                    if k < how.len() {
                        how.remove(k);
                    }
                }
            }
            out.push(t);
        }
        for (i, el) in s.elems.iter().enumerate() {
            match el {
                Elem::Code { code, wtab, rtab, v } => {
                    for u in shrink_u64(*v) {
                        let mut t = s.clone();
                        t.elems[i] = Elem::Code { code: *code, wtab: *wtab, rtab: *rtab, v: u };
                        out.push(t);
                    }
                }
                Elem::Raw { v, n } => {
                    for m in shrink_usize(*n) {
                        let mut t = s.clone();
                        t.elems[i] = Elem::Raw { v: mask(*v, m), n: m };
                        out.push(t);
                    }
                }
            }
        }
        match &s.side {
            Side14::Reader { kind, pre_bits, how, peeks } => {
                for p in shrink_usize(*pre_bits) {
                    out.push(S14 {
                        side: Side14::Reader { kind: *kind, pre_bits: p, how: how.clone(), peeks: peeks.clone() },
                        ..s.clone()
                    });
                }
                if peeks.iter().any(|p| *p != 0) {
                    out.push(S14 {
                        side: Side14::Reader { kind: *kind, pre_bits: *pre_bits, how: how.clone(), peeks: vec![0; peeks.len()] },
                        ..s.clone()
                    });
                }
                if how.iter().any(|h| *h != 0) {
                    out.push(S14 {
                        side: Side14::Reader { kind: *kind, pre_bits: *pre_bits, how: vec![0; how.len()], peeks: peeks.clone() },
                        ..s.clone()
                    });
                }
            }
            Side14::Writer { word, pre, how } => {
                for p in shrink_list(pre) {
                    out.push(S14 {
                        side: Side14::Writer { word: *word, pre: p, how: how.clone() },
                        ..s.clone()
                    });
                }
                for (i, h) in how.iter().enumerate() {
                    if *h != 0 {
                        let mut hh = how.clone();
                        hh[i] = 0;
                        out.push(S14 {
                            side: Side14::Writer { word: *word, pre: pre.clone(), how: hh },
                            ..s.clone()
                        });
                    }
                }
            }
        }
        out
    }

    fn long_running(s: &S14) -> bool {
        s.giant.is_some()
    }

    fn rule() -> &'static str {
        "one case = (endianness, wrapper {Count, Dbg}, side {reader over u16/u32/u64 buffered or unbuffered; writer over u16/u32/u64/u128}, 0..2W+1 bits consumed/written on the inner stream before the wrapper is created, 1-10 items (all codes incl. table-parameterised variants and parameterless defaults, raw fields consumed by read_bits / skip_bits / copy_to or written by write_bits / copy_from, optional peek before an item, optional flush after an item)); the same history runs on the bare stream and through the wrapper. distinct_nontrivial = distinct (endianness, wrapper, word, operation incl. method variant, peek-path?/flush?) signatures Scale scenarios: one run in 100 000 writes a unary part of 2^32 bits through CountBitWriter into a sparse recording sink and reads / skips it through CountBitReader over a sparse source; counters after every step, values and image as for the bare objects."
    }

    fn components() -> (Vec<&'static str>, Vec<&'static str>) {
        (
            vec!["CountBitReader", "CountBitWriter", "DbgBitReader", "DbgBitWriter", "all code traits reached through the wrappers", "generic copy_to/copy_from through the wrappers"],
            vec!["recording word sink"],
        )
    }

    fn required_probes(_t: Tier) -> Vec<&'static str> {
        vec![
            "c14.unwrap_mid_stream_and_continue",
            "c14.seek_back_through_wrapper",
            "scale.count_writer_2^32",
            "scale.count_reader_2^32",
            "c14.read_through_peek_and_skip_after_peek",
            "c14.counter_checked_after_flush",
            "c14.failing_copy_to",
            "c14.failing_copy_from",
        ]
    }

    fn runs(t: Tier) -> u64 {
        match t {
            Tier::Quick => 2_000_000,
            Tier::Thorough => 100_000_000,
        }
    }

    fn assumptions() -> Vec<&'static str> {
        vec![
            "bits appended per element are measured from the real writer's output (marker bit)",
            "after a flush the counter may or may not include the zero padding (the statement is ambiguous): both readings are accepted",
            "stderr of the tracing wrappers is discarded",
        ]
    }
}
