//! C09 — end of stream: data is never fabricated and the tail is never lost.
//!
//! Fault: the producer "crashes" — a valid stream (C03 item generator, measured
//! extents) is truncated after a seed-chosen backend word of the reader's word
//! size, biased so that items end 0..=2 words before the cut, exactly at it, or
//! straddle it. Strict readers (strict memory reader, vector/slice writer read
//! back, WordAdapter over a truncated SimDisk directly / through BufReader, a
//! stub backend failing with EOF or a hard error at word k) and the
//! zero-extended reader.
//! Oracle (strict): every item wholly inside the data returns its value
//! (including the last ones, whose table look-ahead peeks past the end and must
//! fall back); the first operation needing a bit beyond the cut returns Err —
//! never a value; nothing is asserted after the first Err.
//! Oracle (zero-extended): identical to the model stream followed by zeros,
//! never fails.

use crate::bits::*;
use crate::fw::*;
use crate::items::*;
use crate::model::En;
use crate::p03::{code_class, table_tag};
use crate::rng::Rng;
use crate::rsim::*;
use crate::simdisk::{ErrK, FaultPlan};
use serde::{Deserialize, Serialize};

#[derive(Clone, Debug, Serialize, Deserialize)]
pub struct S09 {
    pub e: En,
    pub rkind: RdKind,
    pub rbackend: RdBackend,
    pub offset: Vec<(u64, usize)>,
    pub elems: Vec<Elem>,
    /// keep this many reader words of the stream (the cut)
    pub keep_words: usize,
    /// zero-extended only: ops issued after the items that lie within the data
    pub tail: Vec<ROp>,
    /// insert a raw filler before the last element so that it ends exactly on the last
    /// bit of the data (no truncation then): the tail of the stream must not be lost
    #[serde(default)]
    pub align_tail: bool,
}

pub struct C09;

impl Family for C09 {
    type Scn = S09;
    const ID: &'static str = "C09";

    fn gen(rng: &mut Rng, _tier: Tier, index: u64) -> S09 {
        let e = if index % 2 == 0 { En::BE } else { En::LE };
        let rkind = RdKind::ALL[((index / 2) % 5) as usize];
        let wb = rkind.word_bits();
        let off_bits = rng.usize_range(0, wb + 3);
        let mut offset = Vec::new();
        let mut left = off_bits;
        while left > 0 {
            let n = left.min(rng.usize_range(1, 64));
            offset.push((mask(rng.next(), n), n));
            left -= n;
        }
        let n = rng.usize_range(1, 10);
        let elems = gen_elems(rng, n, true);
        // the cut is chosen at exec time relative to the measured extents through
        // `keep_words`, which the generator picks blindly but biased: a rough
        // estimate of the stream length in words
        let est_bits: usize = off_bits
            + elems
                .iter()
                .map(|e| match e {
                    Elem::Raw { n, .. } => *n,
                    Elem::Code { code, v, .. } => match code {
                        Code::Unary => *v as usize + 1,
                        _ => 2 * (64 - v.leading_zeros() as usize) + 3,
                    },
                })
                .sum::<usize>();
        let est_words = est_bits.div_ceil(wb);
        let keep_words = match rng.below(6) {
            0 => est_words,
            1 => est_words.saturating_sub(1),
            2 => est_words.saturating_sub(2),
            3 => est_words + 1,
            _ => rng.usize_range(0, est_words + 1),
        };
        let sel = (index / 10) % 8;
        let rbackend = match sel {
            0 => RdBackend::MemInf,
            1 => RdBackend::MemStrict,
            2 => RdBackend::VecBack,
            3 => RdBackend::SliceBack,
            4 => RdBackend::Adapter { plan: FaultPlan::none() },
            5 => RdBackend::BufAdapter {
                cap: *rng.pick(&[1usize, 3, 8, 64, 4096]),
                plan: FaultPlan::none(),
            },
            6 => RdBackend::Faulty {
                fail_at: usize::MAX,
                kind: ErrK::UnexpectedEof,
            },
            _ => RdBackend::Faulty {
                fail_at: usize::MAX,
                kind: *rng.pick(&ErrK::HARD),
            },
        };
        // half of the byte-adapter runs end the byte stream inside a word: 1..W/8-1 bytes of a
        // further word follow the last whole word (they are not data: a partial trailing word
        // is an error, so the stream still ends at the cut)
        let mut rbackend = rbackend;
        if rkind.word_bits() > 8 && rng.chance(1, 2) {
            if let Some(p) = rbackend.plan_mut() {
                p.trailing = rng.usize_range(1, rkind.word_bits() / 8 - 1);
            }
        }
        let mut elems = elems;
        if rkind == RdKind::B8 && (rbackend.zero_extended() || crate::p01::CLEAN_ARGS.load(std::sync::atomic::Ordering::Relaxed)) {
            // see C03: the known finding (u8 reader + tables) is exercised on strict backends only,
            // and left out of the configuration replay (C19) altogether
            for el in elems.iter_mut() {
                if let Elem::Code { code, rtab, .. } = el {
                    let mut t = *rtab % code.n_rtabs();
                    while !code.rtables(t).is_empty() {
                        t = (t + 1) % code.n_rtabs();
                    }
                    *rtab = t;
                }
            }
        }
        let mut tail = Vec::new();
        for _ in 0..rng.usize_range(0, 6) {
            tail.push(match rng.below(3) {
                0 => ROp::Bits(rng.usize_range(0, 64)),
                1 => ROp::Skip(rng.usize_range(0, 2 * wb)),
                _ => ROp::Peek(rng.usize_range(1, rkind.max_peek())),
            });
        }
        let align_tail = rng.chance(1, 4);
        let mut elems = elems;
        if align_tail && rng.chance(1, 2) {
            // a last element with a very short codeword (0 or 1 in a random code)
            let code = gen_code(rng);
            let v = match code {
                Code::MinBin(_) => 0,
                _ => rng.below(2),
            };
            elems.push(Elem::Code { code, wtab: rng.below(5) as u8, rtab: if rkind == RdKind::B8 { 0 } else { rng.below(5) as u8 }, v });
            if rkind == RdKind::B8 {
                if let Some(Elem::Code { code, rtab, .. }) = elems.last_mut() {
                    let mut t = *rtab % code.n_rtabs();
                    while !code.rtables(t).is_empty() {
                        t = (t + 1) % code.n_rtabs();
                    }
                    *rtab = t;
                }
            }
        }
        S09 {
            e,
            rkind,
            rbackend,
            offset,
            elems,
            keep_words,
            tail,
            align_tail,
        }
    }

    fn exec(s: &S09, ctx: &mut Ctx) {
        ctx.step(vec![format!("e={:?}", s.e), "op=write".into()]);
        let mut w = match write_stream(s.e, Wd::U64, &WrBackend::Vec, &s.offset, &s.elems, ctx) {
            Ok(w) => w,
            // a failure of the writer is C03's business; nothing to check here
            Err(_) => return,
        };
        // optionally re-write the stream with a filler so that the last element ends exactly
        // on the last bit of the last reader word
        let mut elems_store: Vec<Elem>;
        let mut elems: &[Elem] = &s.elems;
        let mut keep_all = false;
        if s.align_tail && !s.elems.is_empty() {
            let wb = s.rkind.word_bits();
            let total = *w.starts.last().unwrap();
            let fill = (wb - total % wb) % wb;
            elems_store = s.elems.clone();
            let last = elems_store.pop().unwrap();
            let mut left = fill;
            while left > 0 {
                let n = left.min(64);
                elems_store.push(Elem::Raw { v: mask(0xA5A5_5A5A_C3C3_3C3C, n), n });
                left -= n;
            }
            elems_store.push(last);
            w = match write_stream(s.e, Wd::U64, &WrBackend::Vec, &s.offset, &elems_store, ctx) {
                Ok(w) => w,
                Err(_) => return,
            };
            elems = &elems_store;
            keep_all = true;
            ctx.probe("c09.tail_aligned_to_end_of_data");
        }
        let wbytes = s.rkind.word_bits() / 8;
        let mut img = w.bytes.clone();
        // pad to a whole number of reader words, then cut
        while img.len() % wbytes != 0 {
            img.push(0);
        }
        let total_words = if keep_all {
            (*w.starts.last().unwrap()).div_ceil(s.rkind.word_bits())
        } else {
            img.len() / wbytes
        };
        let keep = if keep_all { total_words } else { s.keep_words.min(total_words) };
        img.truncate(keep * wbytes);
        let cut_bits = keep * s.rkind.word_bits();
        ctx.probe_if(keep < total_words, "c09.truncated");
        if keep < total_words {
            ctx.fault("stream_truncated_after_word", 1);
        }
        let mut sim = RSim::new("C09", s.e, s.rkind, &s.rbackend, &img);
        ctx.probe_if(s.rbackend.plan().map(|p| p.trailing > 0).unwrap_or(false), "c09.byte_stream_ends_inside_a_word");
        let strict = !s.rbackend.zero_extended();
        let mut table_seen = false;
        // the whole sequence of reads: offset chunks, then elements
        let mut ops: Vec<(ROp, Option<(Code, u8)>, usize)> = Vec::new();
        for (_v, n) in &s.offset {
            ops.push((ROp::Bits(*n), None, *n));
        }
        for (i, el) in elems.iter().enumerate() {
            match el {
                Elem::Raw { n, .. } => ops.push((ROp::Bits(*n), None, *n)),
                Elem::Code { code, rtab, v, .. } => ops.push((
                    ROp::Code {
                        code: *code,
                        tab: *rtab,
                        exp: Some((*v, w.lens[i])),
                    },
                    Some((*code, *rtab)),
                    w.lens[i],
                )),
            }
        }
        let mut op_starts: Vec<usize> = Vec::with_capacity(ops.len());
        for (i, (op, codeinfo, len)) in ops.iter().enumerate() {
            op_starts.push(sim.pos);
            let mut t = sim.tags(&op.name());
            t.push(format!("backend={}", s.rbackend.name()));
            if let Some((code, rtab)) = codeinfo {
                if !code.rtables(*rtab).is_empty() {
                    table_seen = true;
                }
                t.push(table_tag(*code, *rtab));
            }
            t.push(format!("table_read_seen={}", if table_seen { "yes" } else { "no" }));
            ctx.step(t);
            let end = sim.pos + len;
            let inside = end <= cut_bits;
            // distance of the item's end from the cut, in words (for reach)
            if inside {
                let d = (cut_bits - end) / s.rkind.word_bits();
                ctx.probe_if(d == 0 && end == cut_bits, "c09.item_ends_exactly_at_cut");
                ctx.probe_if(d == 0, "c09.item_ends_in_last_word");
                if let Some((code, rtab)) = codeinfo {
                    for tname in code.rtables(*rtab) {
                        if sim.pos + table_read_bits(tname) > cut_bits && strict {
                            ctx.probe("c09.table_peek_past_end_fallback");
                        }
                    }
                }
            }
            ctx.sig(&[
                9,
                s.e as u64,
                s.rkind as u64,
                strict as u64,
                codeinfo.map(|(c, _)| code_class(c)).unwrap_or(9999),
                codeinfo.map(|(c, t)| (t % c.n_rtabs()) as u64).unwrap_or(0),
                inside as u64,
                ((cut_bits as i64 - end as i64).clamp(-130, 130) + 130) as u64,
            ]);
            if !strict {
                if inside {
                    match sim.step(ctx, i, op) {
                        StepOut::Ok => continue,
                        _ => {
                            sim.harvest_faults(ctx);
                            return;
                        }
                    }
                }
                // at the cut: continue with the zero-extension tail below
                break;
            }
            // strict backends
            if inside || *len == 0 {
                match sim.step(ctx, i, op) {
                    StepOut::Ok => continue,
                    StepOut::Failed => {
                        sim.harvest_faults(ctx);
                        return;
                    }
                    StepOut::Err(m) => {
                        // RSim::err classifies an error on in-data bits as spurious unless a
                        // fault fired; the Faulty backend counts its refusals as faults, so
                        // check explicitly here: the item lies within the data
                        ctx.fail(
                            "C09.tail_lost",
                            format!(
                                "op #{} {:?} occupies bits {}..{} of a stream with {} data bits, yet the reader failed: {}",
                                i, op, sim.pos, end, cut_bits, m
                            ),
                        );
                        sim.harvest_faults(ctx);
                        return;
                    }
                }
            }
            // the operation needs a bit beyond the cut: it must fail
            ctx.ops += 1;
            ctx.probe("c09.op_beyond_cut");
            let res: Result<Result<String, String>, String> = match op {
                ROp::Bits(n) => guard(|| sim.r.read_bits(*n).map(|v| format!("{:#x}", v)).map_err(|e| e.to_string())),
                ROp::Code { code, tab, .. } => {
                    guard(|| sim.r.read_code(*code, *tab).map(|v| format!("{}", v)).map_err(|e| e.to_string()))
                }
                _ => unreachable!(),
            };
            match res {
                Err(p) => {
                    ctx.fail("C09.panic", format!("op #{} {:?} beyond the end panicked: {}", i, op, p));
                }
                Ok(Ok(v)) => {
                    ctx.fail(
                        "C09.fabricated",
                        format!(
                            "op #{} {:?} needs bits {}..{} but the strict stream ends at bit {}; the reader returned the value {} instead of an error",
                            i, op, sim.pos, end, cut_bits, v
                        ),
                    );
                }
                Ok(Err(_)) => {
                    ctx.probe("c09.error_surfaced");
                    ctx.fault("end_of_data_hit_inside_operation", 1);
                    ctx.progressed = true;
                    match op {
                        ROp::Code { code, .. } => {
                            let name: &'static str = match code {
                                Code::Omega => "c09.err_in_omega",
                                Code::Gamma | Code::Delta | Code::Zeta(_) => "c09.err_in_gamma_delta_zeta",
                                Code::Unary => "c09.err_in_unary",
                                _ => "c09.err_in_other_code",
                            };
                            ctx.probe(name);
                        }
                        _ => ctx.probe("c09.err_in_read_bits"),
                    }
                    // ... and the tail is not lost for good: a seek back to the start of an
                    // earlier item re-establishes the state of a fresh reader whatever happened
                    // before (C07), so the items inside the data decode again
                    if i > 0 {
                        let k = (s.keep_words + s.elems.len()) % i;
                        let target = op_starts[k];
                        let mut t = sim.tags("set_bit_pos");
                        t.push(format!("backend={}", s.rbackend.name()));
                        t.push("phase=after_error".into());
                        t.push(format!("table_read_seen={}", if table_seen { "yes" } else { "no" }));
                        ctx.step(t.clone());
                        match guard(|| sim.r.set_bit_pos(target as u64)) {
                            Ok(Ok(())) => {
                                sim.pos = target;
                                sim.dead = false;
                                sim.words_base = None;
                                ctx.probe("c09.reread_after_error_and_seek");
                                for (j, (op2, _, _)) in ops.iter().enumerate().take(i).skip(k) {
                                    let mut t2 = sim.tags(&op2.name());
                                    t2.push(format!("backend={}", s.rbackend.name()));
                                    t2.push("phase=after_error".into());
                                    t2.push(format!("table_read_seen={}", if table_seen { "yes" } else { "no" }));
                                    ctx.step(t2);
                                    match sim.step(ctx, 2000 + j, op2) {
                                        StepOut::Ok => {}
                                        StepOut::Failed => break,
                                        StepOut::Err(m) => {
                                            ctx.fail(
                                                "C09.tail_lost",
                                                format!(
                                                    "after op #{} failed at the end of the data and a seek back to bit {} (start of op #{}), op #{} {:?}, which lies inside the data, failed: {}",
                                                    i, target, k, j, op2, m
                                                ),
                                            );
                                            break;
                                        }
                                    }
                                }
                            }
                            Ok(Err(_)) => {}
                            Err(pm) => ctx.fail("C09.panic", format!("set_bit_pos({}) after an end-of-data error panicked: {}", target, pm)),
                        }
                    }
                }
            }
            sim.harvest_faults(ctx);
            return;
        }
        if !strict {
            // zero-extended: fixed-width reads, skips and peeks across and beyond the cut
            for (j, op) in s.tail.iter().enumerate() {
                let mut t = sim.tags(&op.name());
                t.push(format!("backend={}", s.rbackend.name()));
                t.push("phase=zero_tail".into());
                t.push(format!("table_read_seen={}", if table_seen { "yes" } else { "no" }));
                ctx.step(t);
                if let ROp::Bits(n) | ROp::Skip(n) | ROp::Peek(n) = op {
                    ctx.probe_if(sim.pos + n > cut_bits, "c09.zero_ext_read_beyond_end");
                }
                match sim.step(ctx, 1000 + j, op) {
                    StepOut::Ok => {}
                    StepOut::Failed => break,
                    StepOut::Err(m) => {
                        ctx.fail("C09.zero_ext_failed", format!("zero-extended reader failed: {}", m));
                        break;
                    }
                }
            }
        } else if sim.kind == RdKind::U64 && !sim.dead {
            // unbuffered reader: skipping past the end is allowed, the next read must fail
            ctx.step(sim.tags("skip_then_read"));
            let beyond = cut_bits.saturating_sub(sim.pos) + 1 + s.keep_words % 70;
            if let Ok(Ok(())) = guard(|| sim.r.skip_bits(beyond)) {
                match guard(|| sim.r.read_bits(1)) {
                    Ok(Ok(v)) => ctx.fail(
                        "C09.fabricated",
                        format!("BitReader: after skipping {} bits past the end of a strict stream read_bits(1) returned {}", beyond, v),
                    ),
                    Ok(Err(_)) => ctx.probe("c09.unbuffered_skip_then_read_err"),
                    Err(p) => ctx.fail("C09.panic", format!("read after skip past end panicked: {}", p)),
                }
            }
        }
        sim.harvest_faults(ctx);
    }

    fn shrink(s: &S09) -> Vec<S09> {
        let mut out = Vec::new();
        for elems in shrink_list(&s.elems) {
            out.push(S09 { elems, ..s.clone() });
        }
        for offset in shrink_list(&s.offset) {
            out.push(S09 { offset, ..s.clone() });
        }
        for tail in shrink_list(&s.tail) {
            out.push(S09 { tail, ..s.clone() });
        }
        for k in shrink_usize(s.keep_words) {
            out.push(S09 { keep_words: k, ..s.clone() });
        }
        for (i, el) in s.elems.iter().enumerate() {
            if let Elem::Code { code, wtab, rtab, v } = el {
                for u in shrink_u64(*v) {
                    let mut t = s.clone();
                    t.elems[i] = Elem::Code { code: *code, wtab: *wtab, rtab: *rtab, v: u };
                    out.push(t);
                }
            }
            if let Elem::Raw { v, n } = el {
                for m in shrink_usize(*n) {
                    let mut t = s.clone();
                    t.elems[i] = Elem::Raw { v: mask(*v, m), n: m };
                    out.push(t);
                }
            }
        }
        if !matches!(s.rbackend, RdBackend::MemStrict | RdBackend::MemInf) {
            out.push(S09 { rbackend: RdBackend::MemStrict, ..s.clone() });
        }
        out
    }

    fn scenario_tags(s: &S09) -> Vec<String> {
        let tab = s.elems.iter().any(|el| matches!(el, Elem::Code { code, rtab, .. } if !code.rtables(*rtab).is_empty()));
        vec![
            format!("reader={:?}", s.rkind),
            format!("table_read_seen={}", if tab { "yes" } else { "no" }),
        ]
    }

    fn rule() -> &'static str {
        "one case = (endianness, reader {buffered u8..u64, unbuffered}, backend {zero-extended; strict: strict memory reader, vector/slice writer read back, WordAdapter over a truncated SimDisk, same through std BufReader, stub failing with EOF, stub failing with a hard error kind}, valid stream of 1-10 items (all codes, table options, raw fields) after an offset, cut after keep_words reader words with keep_words biased to the estimated stream length -2..+1 words). distinct_nontrivial = distinct (endianness, reader, strict?, code class, read variant, item inside/outside the data, signed distance in bits between the item's end and the cut (clamped to +-130)) signatures"
    }

    fn components() -> (Vec<&'static str>, Vec<&'static str>) {
        (
            vec!["BufBitReader u8..u64", "BitReader", "MemWordReader strict / zero-extended", "MemWordWriterVec/Slice read back", "WordAdapter (read_exact word fetch)", "std BufReader", "table readers with peek fallback", "omega one-bit look-ahead"],
            vec!["SimDisk (truncated content)", "FaultyWordRead (EOF or hard error at the end of data)"],
        )
    }

    fn required_probes(_t: Tier) -> Vec<&'static str> {
        vec![
            "c09.byte_stream_ends_inside_a_word",
            "c09.reread_after_error_and_seek",
            "c09.truncated",
            "c09.item_ends_exactly_at_cut",
            "c09.table_peek_past_end_fallback",
            "c09.op_beyond_cut",
            "c09.error_surfaced",
            "c09.err_in_omega",
            "c09.err_in_gamma_delta_zeta",
            "c09.err_in_read_bits",
            "c09.zero_ext_read_beyond_end",
            "c09.unbuffered_skip_then_read_err",
            "c09.tail_aligned_to_end_of_data",
        ]
    }

    fn runs(t: Tier) -> u64 {
        match t {
            Tier::Quick => 2_000_000,
            Tier::Thorough => 150_000_000,
        }
    }

    fn level() -> &'static str {
        "fault_enumeration"
    }

    fn assumptions() -> Vec<&'static str> {
        vec![
            "codeword extents are measured from the real writer's output (marker bit)",
            "nothing is asserted after the first Err on a stream",
            "beyond the cut, zero-extended readers are only asked for fixed-width reads, skips and peeks (codes would loop on zeros, as documented)",
        ]
    }
}
