#!/usr/bin/env python3
"""Build helper: generates the shadow manifests for a given copy of the
repository and builds the simulator against it, offline.

The shadow manifest has the same package name as the repository's crate and
`[lib] path = <repo>/src/lib.rs`, so the repository's own Cargo.toml and
Cargo.lock stay untouched while the harness can add the cfg guard, pass the
crate's features through and (for C15) link shuttle.
"""
import os, subprocess, sys, shutil, hashlib

VERIF = os.environ.get("VERIF_DIR") or os.path.dirname(os.path.dirname(os.path.abspath(__file__)))

SHADOW = """[package]
name = "dsi-bitstream"
version = "0.5.0"
edition = "2021"

[lib]
path = "{repo}/src/lib.rs"

[dependencies]
rand = {{ version = "0.9.0", features = ["small_rng"] }}
common_traits = ">=0.10.2"
mem_dbg = {{ version = "0.3.0", optional = true }}
anyhow = "1.0.86"
impl-tools = "0.10.2"
{shuttle_dep}

[features]
default = ["std", "mem_dbg"]
std = ["alloc"]
alloc = []
checks = []
no_copy_impls = []
offset_of_enum = []

[lints.rust]
unexpected_cfgs = {{ level = "allow" }}
"""

SIM = """[package]
name = "dsisim"
version = "0.1.0"
edition = "2021"

[workspace]

[[bin]]
name = "sim"
path = "{verif}/sim/src/main.rs"

[dependencies]
dsi-bitstream = {{ path = "../shadow"{dsi_opts} }}
common_traits = ">=0.10.2"
serde = {{ version = "1", features = ["derive"] }}
serde_json = "1"
{shuttle_dep}

[features]
checks = ["dsi-bitstream/checks"]
no_copy_impls = ["dsi-bitstream/no_copy_impls"]

[profile.release]
opt-level = 2
debug-assertions = false
overflow-checks = false
codegen-units = 16
incremental = true

[profile.dbgopt]
inherits = "release"
debug-assertions = true
overflow-checks = true
"""

CONFIG = """[net]
offline = true
[build]
rustflags = [{flags}]
"""


def write_if_changed(path, text):
    try:
        if open(path).read() == text:
            return
    except OSError:
        pass
    os.makedirs(os.path.dirname(path), exist_ok=True)
    with open(path, "w") as f:
        f.write(text)


def build(repo="/repo", tag="main", features=(), profile="release", shuttle=False, quiet=True):
    """Returns path of the built `sim` (or `simsh` for shuttle) binary; raises
    RuntimeError with the tail of the compiler output on failure."""
    repo = os.path.abspath(repo)
    bdir = os.path.join(VERIF, ".build", tag)
    sh_dep = 'shuttle = "0.9.3"' if shuttle else ""
    # the shuttle Mutex has no MemDbg/MemSize impl: build the crate without mem_dbg there
    dsi_opts = ', default-features = false, features = ["std"]' if shuttle else ""
    write_if_changed(os.path.join(bdir, "shadow", "Cargo.toml"), SHADOW.format(repo=repo, shuttle_dep=sh_dep))
    write_if_changed(os.path.join(bdir, "sim", "Cargo.toml"), SIM.format(verif=VERIF, shuttle_dep=sh_dep, dsi_opts=dsi_opts))
    flags = ['"--cfg"', '"dsi_bitstream_verif"']
    if shuttle:
        flags += ['"--cfg"', '"dsi_bitstream_verif_shuttle"']
    write_if_changed(os.path.join(bdir, "sim", ".cargo", "config.toml"), CONFIG.format(flags=", ".join(flags)))
    lock = os.path.join(bdir, "sim", "Cargo.lock")
    if not os.path.exists(lock):
        seed_lock = os.path.join(VERIF, "sim", "Cargo.lock.shuttle" if shuttle else "Cargo.lock.base")
        if not os.path.exists(seed_lock):
            seed_lock = os.path.join(repo, "Cargo.lock")
        shutil.copy(seed_lock, lock)
    cmd = ["cargo", "build", "--offline", "--profile", profile]
    if features:
        cmd += ["--features", ",".join(features)]
    env = dict(os.environ)
    env["CARGO_NET_OFFLINE"] = "true"
    env.pop("RUSTFLAGS", None)
    p = subprocess.run(cmd, cwd=os.path.join(bdir, "sim"), env=env, stdout=subprocess.PIPE, stderr=subprocess.STDOUT, text=True)
    if p.returncode != 0:
        tail = "\n".join(p.stdout.splitlines()[-60:])
        raise RuntimeError("build failed (tag %s):\n%s" % (tag, tail))
    pdir = "release" if profile == "release" else profile
    return os.path.join(bdir, "sim", "target", pdir, "sim")


if __name__ == "__main__":
    import argparse
    ap = argparse.ArgumentParser()
    ap.add_argument("--repo", default=os.environ.get("VERIF_REPO", "/repo"))
    ap.add_argument("--tag", default="main")
    ap.add_argument("--features", default="")
    ap.add_argument("--profile", default="release")
    ap.add_argument("--shuttle", action="store_true")
    a = ap.parse_args()
    try:
        print(build(a.repo, a.tag, tuple(x for x in a.features.split(",") if x), a.profile, a.shuttle))
    except RuntimeError as e:
        print(e, file=sys.stderr)
        sys.exit(2)
