#!/usr/bin/env python3
"""Confirm a seeded change produced by a sub-agent and record it under
/verif/seeded/<id>/ : (1) the demonstration passes on the unmodified tree and
fails with the change; (2) the repository's own test suite still passes with
the change; (3) which of our checks catch it.

usage: seedcheck.py <PROP> <srcdir> <letter> [--checks C01,C02,...]
  srcdir contains <letter>.patch, demo_<letter>.rs, NOTES.md
"""
import os, sys, subprocess, shutil, json, time

VERIF = os.path.dirname(os.path.dirname(os.path.abspath(__file__)))

def sh(cmd, cwd=None, env=None, timeout=3600):
    p = subprocess.run(cmd, shell=True, cwd=cwd, env=env, text=True, stdout=subprocess.PIPE, stderr=subprocess.STDOUT, timeout=timeout)
    return p.returncode, p.stdout

def main():
    prop, srcdir, letter = sys.argv[1:4]
    checks = [prop]
    if "--checks" in sys.argv:
        checks = sys.argv[sys.argv.index("--checks") + 1].split(",")
    sid = "%s-%s" % (prop, letter)
    if "--id" in sys.argv:
        sid = sys.argv[sys.argv.index("--id") + 1]
    scratch = "/tmp/verif-seedcheck-%s/repo" % sid
    tgt = "/tmp/verif-seedcheck-target"   # shared cargo target dir for the suite
    shutil.rmtree(os.path.dirname(scratch), ignore_errors=True)
    os.makedirs(scratch)
    sh("rsync -a --exclude target --exclude .git /repo/ %s/" % scratch)
    patch = os.path.join(srcdir, "%s.patch" % letter)
    demo = os.path.join(srcdir, "demo_%s.rs" % letter)
    env = dict(os.environ, CARGO_TARGET_DIR=tgt, CARGO_NET_OFFLINE="true")
    res = {"id": sid, "property": prop}
    shutil.copy(demo, os.path.join(scratch, "tests", "seed_demo.rs"))
    rc, out = sh("cargo test --offline --test seed_demo 2>&1 | tail -15", cwd=scratch, env=env)
    res["demo_on_unmodified"] = "pass" if "test result: ok" in out else "FAIL"
    rc, out = sh("git apply --unsafe-paths --directory=%s %s || patch -p1 -d %s < %s" % (scratch, patch, scratch, patch), cwd="/")
    res["patch_applies"] = rc == 0
    rc, out = sh("cargo test --offline --test seed_demo 2>&1 | tail -15", cwd=scratch, env=env)
    res["demo_with_change"] = "fail" if ("test result: FAILED" in out or "panicked" in out) else "PASS"
    os.unlink(os.path.join(scratch, "tests", "seed_demo.rs"))
    rc, out = sh("cargo test --workspace --no-fail-fast --offline 2>&1 | grep -E '^test result|FAILED|error(\\[|:)' ", cwd=scratch, env=env)
    res["suite_with_change"] = "pass" if ("FAILED" not in out and "error" not in out and "test result: ok" in out) else "FAIL"
    res["suite_output"] = out.strip().splitlines()[-10:]
    caught = []
    details = {}
    for c in checks:
        e2 = dict(os.environ, VERIF_REPO=scratch, VERIF_TAG="seed-" + sid)
        t = time.time()
        rc, out = sh("./check %s --tier quick --no-evidence" % c, cwd=VERIF, env=e2)
        first = [l for l in out.splitlines() if "violation oracle=" in l][:2]
        details[c] = {"exit": rc, "seconds": round(time.time() - t, 1), "first": [f[:300] for f in first]}
        if rc == 1:
            caught.append(c)
    res["caught_by"] = caught
    res["checks_run"] = details
    # record
    dst = os.path.join(VERIF, "seeded", sid)
    os.makedirs(dst, exist_ok=True)
    shutil.copy(patch, os.path.join(dst, "patch.diff"))
    shutil.copy(demo, os.path.join(dst, "demo.rs"))
    notes = os.path.join(srcdir, "NOTES.md")
    if os.path.exists(notes):
        shutil.copy(notes, os.path.join(dst, "NOTES.md"))
    meta_p = os.path.join(dst, "meta.json")
    meta = json.load(open(meta_p)) if os.path.exists(meta_p) else {}
    meta.update({
        "property": prop,
        "id": sid,
        "source": "independent sub-agent given only the property text and a scratch worktree",
        "confirmed": res,
        "caught_by": caught,
        "what_i_ran": [
            "cargo test --offline --test seed_demo (demo copied to tests/) on the unmodified copy: %s" % res["demo_on_unmodified"],
            "same with the patch applied: %s" % res["demo_with_change"],
            "cargo test --workspace --no-fail-fast --offline with the patch applied: %s" % res["suite_with_change"],
        ] + ["VERIF_REPO=<patched copy> ./check %s --tier quick -> exit %d" % (c, details[c]["exit"]) for c in checks],
    })
    json.dump(meta, open(meta_p, "w"), indent=1)
    print(json.dumps({k: res[k] for k in ("id", "demo_on_unmodified", "demo_with_change", "suite_with_change", "caught_by")}))
    for c in checks:
        print("   ", c, details[c]["exit"], details[c]["seconds"], (details[c]["first"] or [""])[0][:200])
    shutil.rmtree(os.path.dirname(scratch), ignore_errors=True)
    for d in [os.path.join(VERIF, ".build", x) for x in os.listdir(os.path.join(VERIF, ".build")) if x.startswith("seed-" + sid)]:
        shutil.rmtree(d, ignore_errors=True)

if __name__ == "__main__":
    main()
