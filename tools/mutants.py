#!/usr/bin/env python3
"""Sensitivity self-test: apply each deliberate property-breaking patch in
/verif/mutants (or /verif/seeded/<id>/patch.diff) to a scratch copy of the
repository OUTSIDE /repo and /verif, run the quick check of the property it
breaks against that copy (VERIF_REPO), and require exit 1 with a VIOLATION line;
on the unpatched copy the check must exit 0. The scratch copy and its build
output are removed afterwards.

usage: tools/mutants.py [--only SUBSTR] [--keep] [--tier quick] [--baseline] [--refactors]
"""
import os, sys, subprocess, shutil, glob, json, time

VERIF = os.path.dirname(os.path.dirname(os.path.abspath(__file__)))
SCRATCH = "/tmp/verif-mut"

def sh(cmd, **kw):
    return subprocess.run(cmd, shell=True, text=True, stdout=subprocess.PIPE, stderr=subprocess.STDOUT, **kw)

def fresh_copy(dst):
    if os.path.exists(dst):
        shutil.rmtree(dst)
    os.makedirs(dst)
    r = sh("rsync -a --exclude target --exclude .git /repo/ %s/" % dst)
    assert r.returncode == 0, r.stdout
    # cargo decides freshness by mtime: a file restored to its original content must not
    # look older than the previous (patched) build, or the stale build would be reused
    sh("find %s/src -type f -exec touch {} +" % dst)

def run_check(prop, repo, tag, tier, extra=""):
    env = dict(os.environ, VERIF_REPO=repo, VERIF_TAG=tag)
    t = time.time()
    r = subprocess.run("./check %s --tier %s --no-evidence %s" % (prop, tier, extra), shell=True, cwd=VERIF, env=env,
                       text=True, stdout=subprocess.PIPE, stderr=subprocess.STDOUT)
    return r.returncode, r.stdout, time.time() - t

def main():
    args = sys.argv[1:]
    only = None
    tier = "quick"
    if "--only" in args:
        only = args[args.index("--only") + 1]
    if "--tier" in args:
        tier = args[args.index("--tier") + 1]
    items = []
    outside = []
    for p in sorted(glob.glob(os.path.join(VERIF, "mutants", "*.patch"))):
        name = os.path.basename(p)[:-6]
        props = name.split("-")[0].split("+")
        items.append((name, p, props))
    for d in sorted(glob.glob(os.path.join(VERIF, "seeded", "*"))):
        p = os.path.join(d, "patch.diff")
        m = os.path.join(d, "meta.json")
        if os.path.exists(p) and os.path.exists(m):
            meta = json.load(open(m))
            if meta.get("expected") == "outside_property":
                # confirmed change whose effect was judged to lie outside the property as stated
                # (see its meta.json / DESIGN.md 9.6): kept for the record, the check must stay silent
                outside.append(("seeded/" + os.path.basename(d), p, [meta["property"]]))
                continue
            items.append(("seeded/" + os.path.basename(d), p, meta.get("caught_by") or [meta["property"]]))
    # negative controls: behaviour-preserving refactors, every check must stay silent
    controls = []
    if "--refactors" in args:
        items = []
        for d in sorted(glob.glob(os.path.join(VERIF, "refactors", "*"))):
            p = os.path.join(d, "refactor.patch")
            if os.path.exists(p):
                controls.append(("refactors/" + os.path.basename(d), p))
    if only:
        items = [it for it in items if only in it[0]]
        controls = [c for c in controls if only in c[0]]
    repo = os.path.join(SCRATCH, "repo")
    results = []
    ok_all = True
    if "--baseline" in args:
        fresh_copy(repo)
        for prop in sorted({p for it in items for p in it[2]}):
            rc, out, dt = run_check(prop, repo, "mut", tier)
            print("baseline %-6s exit=%d (%.0fs)" % (prop, rc, dt))
            if rc != 0:
                ok_all = False
                print(out[-2000:])
    for name, patch, props in items:
        fresh_copy(repo)
        r = sh("patch -p1 --no-backup-if-mismatch < %s" % patch, cwd=repo)
        if r.returncode != 0:
            print("%-40s PATCH DOES NOT APPLY\n%s" % (name, r.stdout))
            ok_all = False
            continue
        for prop in props:
            rc, out, dt = run_check(prop, repo, "mut", tier)
            viol = [l for l in out.splitlines() if l.startswith("VIOLATION")]
            first = [l for l in out.splitlines() if "violation oracle=" in l][:1]
            status = "CAUGHT" if (rc == 1 and viol) else ("MISSED" if rc == 0 else "ERROR(rc=%d)" % rc)
            if status != "CAUGHT":
                ok_all = False
            print("%-40s %-5s %-12s %.0fs %s" % (name, prop, status, dt, (first[0][:160] if first else "")))
            if status.startswith("ERROR"):
                print(out[-1500:])
            results.append({"mutant": name, "property": prop, "status": status, "seconds": round(dt, 1)})
    for name, patch, props in ([] if "--refactors" in args else [o for o in outside if not only or only in o[0]]):
        fresh_copy(repo)
        r = sh("patch -p1 --no-backup-if-mismatch < %s" % patch, cwd=repo)
        if r.returncode != 0:
            print("%-40s PATCH DOES NOT APPLY" % name)
            ok_all = False
            continue
        for prop in props:
            rc, out, dt = run_check(prop, repo, "mut", tier)
            status = "OUTSIDE-SILENT" if rc == 0 else ("OUTSIDE-REPORTED" if rc == 1 else "ERROR(rc=%d)" % rc)
            if rc == 2:
                ok_all = False
            print("%-40s %-5s %-12s %.0fs" % (name, prop, status, dt))
            results.append({"mutant": name, "property": prop, "status": status, "seconds": round(dt, 1)})
    ALL = ["C01", "C02", "C03", "C05", "C07", "C08", "C09", "C11", "C12", "C13", "C14", "C15", "C18", "C19"]
    for name, patch in controls:
        fresh_copy(repo)
        r = sh("patch -p1 --no-backup-if-mismatch < %s" % patch, cwd=repo)
        if r.returncode != 0:
            print("%-40s PATCH DOES NOT APPLY" % name)
            ok_all = False
            continue
        for prop in ALL:
            rc, out, dt = run_check(prop, repo, "mut", tier)
            status = "SILENT" if rc == 0 else ("FALSE-ALARM" if rc == 1 else "ERROR(rc=%d)" % rc)
            if rc != 0:
                ok_all = False
                print(out[-1500:])
            print("%-40s %-5s %-12s %.0fs" % (name, prop, status, dt))
            results.append({"control": name, "property": prop, "status": status, "seconds": round(dt, 1)})
    if "--keep" not in args:
        shutil.rmtree(SCRATCH, ignore_errors=True)
        for d in glob.glob(os.path.join(VERIF, ".build", "mut*")):
            shutil.rmtree(d, ignore_errors=True)
    json.dump(results, open(os.path.join(VERIF, "mutants", "last_results.json"), "w"), indent=1)
    return 0 if ok_all else 1

if __name__ == "__main__":
    sys.exit(main())
