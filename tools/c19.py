"""C19 — build options change no result; argument checking fires only on dirty
arguments.

Configuration replay: the simulator is built from the repository's current tree
for several (feature set, profile) configurations; the SAME seeded histories
(families C01 C02 C03 C05 C07 C08 C12 C14, clean arguments only) are executed by
each build and the digest of the complete event log of every run (returns,
bytes, lengths, positions, Ok/Err) is compared across builds. In addition the
exhaustive C19W family checks that write_bits panics iff `checks` is on and the
argument is dirty.

A violation is minimised on the (reference build, offending build) pair and
written as a replay file; `./check C19 --replay <file>` rebuilds the two
configurations and re-runs the minimised scenario.
"""
import json, os, subprocess, sys, time, hashlib
from concurrent.futures import ThreadPoolExecutor
import vbuild

VERIF = os.environ.get("VERIF_DIR") or os.path.dirname(os.path.dirname(os.path.abspath(__file__)))
FAMILIES = ["C01", "C02", "C03", "C05", "C07", "C08", "C09", "C12", "C13", "C14", "C18"]
CONFIGS_QUICK = [
    ((), "release"),
    (("checks",), "release"),
    (("no_copy_impls",), "release"),
    (("checks", "no_copy_impls"), "release"),
    ((), "dbgopt"),
    (("checks", "no_copy_impls"), "dbgopt"),
]
CONFIGS_THOROUGH = [(f, p) for p in ("release", "dbgopt") for f in ((), ("checks",), ("no_copy_impls",), ("checks", "no_copy_impls"))]
DEFAULT_SEED = 20260928


def cfg_name(c):
    return ("+".join(c[0]) or "default") + "/" + c[1]


def build_all(repo, tag, configs):
    def one(c):
        feats, prof = c
        t = "%s-c19-%s-%s" % (tag, "_".join(feats) or "default", prof)
        t0 = time.time()
        return c, vbuild.build(repo, t, feats, prof), time.time() - t0
    out = {}
    with ThreadPoolExecutor(max_workers=3) as ex:
        for c, path, dt in ex.map(one, configs):
            out[c] = (path, dt)
    return out


def run_digests(sim, fam, seed, tier, a, b, stall=15.0):
    """Runs [a, b); a run that makes no progress for `stall` seconds is killed,
    recorded as ('HANG', ...) and the range continues after it."""
    import threading, queue
    res = {}
    rc = 0
    cur = a
    hangs = 0
    while cur < b:
        p = subprocess.Popen([sim, "digests", fam, "--seed", str(seed), "--tier", tier, "--from", str(cur), "--to", str(b), "--clean"],
                             stdout=subprocess.PIPE, stderr=subprocess.DEVNULL, text=True)
        q = queue.Queue()

        def pump(pp=p, qq=q):
            for l in pp.stdout:
                qq.put(l)
            qq.put(None)
        threading.Thread(target=pump, daemon=True).start()
        last = cur - 1
        done = False
        allow = stall
        while True:
            try:
                l = q.get(timeout=allow)
            except queue.Empty:
                p.kill()
                p.wait()
                break
            if l is None:
                done = True
                break
            if l.startswith("L "):
                # a scale scenario announced itself (seconds of real work; much more on a
                # loaded machine or in a debug-assertion build): no stall detection for it
                allow = stall + 240.0
                continue
            allow = stall
            if l.startswith("D "):
                _, i, d, o, ops = l.split()
                res[int(i)] = (d, o, int(ops))
                last = int(i)
        if done:
            p.wait()
            if last + 1 < b:
                # the process died on run last+1
                res[last + 1] = ("ABORT", "process-died", 0)
                cur = last + 2
                hangs += 1
            else:
                cur = b
        else:
            res[last + 1] = ("HANG", "does-not-terminate", 0)
            cur = last + 2
            hangs += 1
        if hangs > 4:
            break
    return res, rc


def digest_of(sim, fam, scenarios):
    inp = "\n".join(json.dumps(s) for s in scenarios) + "\n"
    # scale scenarios take seconds each (more in debug-assertion builds)
    nlong = sum(1 for s in scenarios if isinstance(s, dict) and (s.get("giant") or s.get("huge")))
    try:
        p = subprocess.run([sim, "digest-of", fam, "--clean"], input=inp, stdout=subprocess.PIPE, stderr=subprocess.DEVNULL, text=True, timeout=30 + 240 * nlong)
    except subprocess.TimeoutExpired:
        return {}
    res = {}
    for l in p.stdout.splitlines():
        if l.startswith("D "):
            _, k, d, o = l.split()
            res[int(k)] = (d, o)
    return res


def gen_scenario(sim, fam, seed, tier, i):
    env = dict(os.environ)
    p = subprocess.run([sim, "gen", fam, "--seed", str(seed), "--tier", tier, "--index", str(i)], stdout=subprocess.PIPE, stderr=subprocess.DEVNULL, text=True)
    return json.loads(p.stdout)


def shrink_cands(sim, fam, scn):
    path = os.path.join(VERIF, "replays", ".c19-tmp-%d.json" % os.getpid())
    os.makedirs(os.path.dirname(path), exist_ok=True)
    json.dump(scn, open(path, "w"))
    p = subprocess.run([sim, "shrink", fam, path], stdout=subprocess.PIPE, stderr=subprocess.DEVNULL, text=True)
    os.unlink(path)
    out = []
    for l in p.stdout.splitlines():
        try:
            out.append(json.loads(l))
        except Exception:
            pass
    return out


def differs(ra, rb):
    return ra is None or rb is None or ra != rb


def minimise(sim_a, sim_b, fam, scn, rounds=60):
    """Greedy: keep a candidate if the two builds still disagree on it."""
    cur = scn
    for _ in range(rounds):
        cands = shrink_cands(sim_a, fam, cur)[:400]
        if not cands:
            break
        try:
            ra = digest_of(sim_a, fam, cands)
            rb = digest_of(sim_b, fam, cands)
        except subprocess.TimeoutExpired:
            break
        pick = None
        for k in range(len(cands)):
            if k in ra and k in rb and ra[k] != rb[k]:
                pick = k
                break
        if pick is None:
            break
        cur = cands[pick]
    return cur


def main(repo, tag, rest, replay):
    seed = int(os.environ.get("VERIF_SEED", DEFAULT_SEED))
    tier = os.environ.get("VERIF_TIER", "quick")
    runs = None
    no_evidence = "--no-evidence" in rest
    it = iter(rest)
    for a in it:
        if a == "--seed":
            seed = int(next(it))
        elif a == "--tier":
            tier = next(it)
        elif a == "--runs":
            runs = int(next(it))
    if replay:
        return do_replay(repo, tag, replay)
    configs = CONFIGS_QUICK if tier == "quick" else CONFIGS_THOROUGH
    n = runs or (100_000 if tier == "quick" else 1_500_000)
    t0 = time.time()
    print("[C19] tier=%s seed=%d runs/family=%d builds=%d" % (tier, seed, n, len(configs)))
    try:
        builds = build_all(repo, tag, configs)
    except RuntimeError as e:
        print("HARNESS-ERROR", e)
        return 2
    tb = time.time() - t0
    ref = configs[0]
    # ---- digests: tasks = builds x families x chunks
    nchunks = 4 if tier == "quick" else 16
    tasks = []
    for c in configs:
        for fam in FAMILIES:
            for k in range(nchunks):
                tasks.append((c, fam, n * k // nchunks, n * (k + 1) // nchunks))
    results = {c: {fam: {} for fam in FAMILIES} for c in configs}
    crashed = []

    def work(t):
        c, fam, a, b = t
        res, rc = run_digests(builds[c][0], fam, seed, tier, a, b)
        return t, res, rc
    with ThreadPoolExecutor(max_workers=16) as ex:
        for (c, fam, a, b), res, rc in ex.map(work, tasks):
            results[c][fam].update(res)
            if len(res) != b - a:
                crashed.append((c, fam, a, b, len(res)))
    # ---- C19W per build
    c19w = {}
    viol_lines = []
    for c in configs:
        p = subprocess.run([builds[c][0], "check", "C19W", "--seed", str(seed), "--no-evidence"], stdout=subprocess.PIPE, stderr=subprocess.DEVNULL, text=True,
                           env=dict(os.environ, VERIF_DIR=VERIF))
        c19w[cfg_name(c)] = {"exit": p.returncode, "summary": [l for l in p.stdout.splitlines() if "runs=" in l][-1:]}
        if p.returncode != 0:
            for l in p.stdout.splitlines():
                if l.startswith("VIOLATION") or "violation oracle" in l or l.startswith("HARNESS-ERROR"):
                    print("[C19W %s] %s" % (cfg_name(c), l))
            for l in p.stdout.splitlines():
                if l.startswith("VIOLATION"):
                    inner = l.split("replay=")[1].strip()
                    out = os.path.join(VERIF, "replays", "C19-c19w-%s-%s" % ("_".join(c[0]) or "default", c[1]) + "-" + os.path.basename(inner))
                    json.dump({"property": "C19", "kind": "c19w", "features": list(c[0]), "profile": c[1], "inner_replay": inner,
                               "inner": json.load(open(inner))}, open(out, "w"), indent=1)
                    viol_lines.append(out)
            if p.returncode == 2:
                print("HARNESS-ERROR C19W failed in build", cfg_name(c))
                return 2
    # ---- compare
    mism = []  # (fam, i, cfg_b)
    same_fail = {}
    distinct = set()
    total = 0
    ops = 0
    for fam in FAMILIES:
        for i, r in sorted(results[ref][fam].items()):
            total += 1
            ops += r[2]
            if r[2] > 0:
                distinct.add((fam, r[0]))
            bad = None
            for c in configs[1:]:
                rc = results[c][fam].get(i)
                if rc is None or rc[:2] != r[:2]:
                    bad = c
                    break
            if bad is not None:
                mism.append((fam, i, bad))
            elif r[1] != "-":
                same_fail[(fam, r[1])] = same_fail.get((fam, r[1]), 0) + 1
    for (c, fam, a, b, got) in crashed:
        print("[C19] build %s family %s runs %d..%d: only %d results (process died or hung)" % (cfg_name(c), fam, a, b, got))
    for (fam, o), k in sorted(same_fail.items()):
        print("[C19] note: family %s fails identically (%s) in every configuration in %d runs — reported by its own check, not a C19 violation" % (fam, o, k))
    # ---- report violations (first of each (family, build))
    seen = set()
    for fam, i, c in mism:
        key = (fam, c)
        if key in seen:
            continue
        seen.add(key)
        if len(seen) > 8:
            break
        ra = results[ref][fam].get(i)
        rb = results[c][fam].get(i)
        scn = gen_scenario(builds[ref][0], fam, seed, tier, i)
        mini = scn
        try:
            if ra is not None and rb is not None and ra[0] not in ("HANG", "ABORT") and rb[0] not in ("HANG", "ABORT"):
                mini = minimise(builds[ref][0], builds[c][0], fam, scn)
        except Exception as e:  # keep the unminimised scenario
            print("[C19] minimiser failed:", e)
        def safe_digest(sim_path, scenario):
            try:
                return digest_of(sim_path, fam, [scenario]).get(0)
            except subprocess.TimeoutExpired:
                return ("HANG", "does-not-terminate")
        da = safe_digest(builds[ref][0], mini)
        db = safe_digest(builds[c][0], mini)
        if da == db:
            mini = scn
            da = safe_digest(builds[ref][0], mini)
            db = safe_digest(builds[c][0], mini)
        if da == db and da is not None:
            print("HARNESS-ERROR C19 mismatch for %s run %d did not reproduce" % (fam, i))
            return 2
        out = os.path.join(VERIF, "replays", "C19-%s-%d-%s-%s.json" % (fam, i, "_".join(c[0]) or "default", c[1]))
        os.makedirs(os.path.dirname(out), exist_ok=True)
        json.dump({"property": "C19", "kind": "digest", "family": fam, "seed": seed, "index": i,
                   "oracle": "C19.result_differs_between_builds",
                   "build_a": {"features": list(ref[0]), "profile": ref[1], "result": da},
                   "build_b": {"features": list(c[0]), "profile": c[1], "result": db},
                   "scenario": mini}, open(out, "w"), indent=1)
        print("[C19] violation oracle=C19.result_differs_between_builds family=%s run=%d: build %s gives %s, build %s gives %s (mismatching runs in this family/build: %d)"
              % (fam, i, cfg_name(ref), da, cfg_name(c), db, sum(1 for m in mism if m[0] == fam and m[2] == c)))
        viol_lines.append(out)
    wall = time.time() - t0
    # ---- evidence
    samples = []
    for fam in FAMILIES[:3]:
        try:
            samples.append({"family": fam, "index": 3, "scenario": gen_scenario(builds[ref][0], fam, seed, tier, 3)})
        except Exception:
            pass
    ev = {
        "property_id": "C19", "tier": tier, "seed": seed, "level": "exploration",
        "coverage": {
            "evaluations": total * len(configs),
            "distinct_nontrivial": len(distinct),
            "rule": "one case = one seeded run of families %s (clean arguments) executed by every build; evaluations = runs x builds; distinct_nontrivial = distinct (family, event-log digest) pairs among runs that executed at least one library operation in the reference build. Plus the exhaustive C19W family (write_bits panics iff checks is on and the argument is dirty) in every build" % " ".join(FAMILIES),
            "samples": samples,
            "builds": [cfg_name(c) for c in configs],
            "build_seconds": {cfg_name(c): round(builds[c][1], 1) for c in configs},
            "runs_per_family_per_build": n,
            "families": FAMILIES,
            "library_operations_in_reference_build": ops,
            "mismatching_runs": len(mism),
            "c19w": c19w,
            "runs_per_hour": round(total * len(configs) * 3600 / max(wall, 1e-9)),
            "simulated_time": "not applicable (no clock in the library)",
            "components_real": ["the whole crate, compiled per configuration: features {default, checks, no_copy_impls, both} x profiles {release, optimised with debug assertions and overflow checks}"],
            "components_stub": ["SimDisk, recording sinks (as in the replayed families)"],
            "exhaustive": False,
        },
        "assumptions": ["clean arguments only (dirty arguments panic by design under `checks`)", "u8 readers do not use decoding tables in the replayed C03 / C09 runs (recorded known finding)"],
        "wall_s": round(wall, 2),
        "violations": len(viol_lines),
    }
    if not no_evidence:
        os.makedirs(os.path.join(VERIF, "evidence"), exist_ok=True)
        json.dump(ev, open(os.path.join(VERIF, "evidence", "C19.json"), "w"), indent=1)
    print("[C19] compared %d runs x %d builds (build time %.0fs, total %.0fs), distinct event logs %d, mismatches %d" % (total, len(configs), tb, wall, len(distinct), len(mism)))
    if crashed and not viol_lines:
        print("HARNESS-ERROR some digest processes did not complete")
        return 2
    if viol_lines:
        for v in viol_lines:
            print("VIOLATION property=C19 replay=%s" % v)
        return 1
    if total < n * len(FAMILIES):
        print("HARNESS-ERROR only %d of %d runs compared" % (total, n * len(FAMILIES)))
        return 2
    print("[C19] OK")
    return 0


def do_replay(repo, tag, path):
    rf = json.load(open(path))
    if rf.get("kind") == "c19w":
        c = (tuple(rf["features"]), rf["profile"])
        b = build_all(repo, tag, [c])
        inner = os.path.join(VERIF, "replays", ".c19w-replay-%d.json" % os.getpid())
        json.dump(rf["inner"], open(inner, "w"))
        rc = subprocess.call([b[c][0], "replay", "C19W", inner])
        os.unlink(inner)
        if rc == 1:
            print("VIOLATION property=C19 replay=%s" % path)
        return rc
    ca = (tuple(rf["build_a"]["features"]), rf["build_a"]["profile"])
    cb = (tuple(rf["build_b"]["features"]), rf["build_b"]["profile"])
    b = build_all(repo, tag, [ca, cb])
    def safe(sim_path):
        try:
            return digest_of(sim_path, rf["family"], [rf["scenario"]]).get(0)
        except subprocess.TimeoutExpired:
            return ("HANG", "does-not-terminate")
    da = safe(b[ca][0])
    db = safe(b[cb][0])
    print("replay: build %s -> %s ; build %s -> %s" % (cfg_name(ca), da, cfg_name(cb), db))
    if da != db or da is None:
        print("VIOLATION property=C19 replay=%s" % path)
        return 1
    print("replay: no violation")
    return 0
