"""C15 driver: builds the simulator with the shuttle cfg (the Mutex of
CodesStatsWrapper becomes shuttle's through the guarded import in /repo) and
runs the C15 family."""
import os, subprocess, sys
import vbuild

def main(repo, tag, rest, replay):
    try:
        sim = vbuild.build(repo, tag + "-sh", shuttle=True)
    except RuntimeError as e:
        print("HARNESS-ERROR", e)
        return 2
    if replay:
        cmd = [sim, "replay", "C15", replay] + rest
    else:
        cmd = [sim, "check", "C15"] + rest
    return subprocess.call(cmd)
