#!/usr/bin/env python3
"""MANIFEST.setup_cmd: build the simulator offline from files on disk."""
import os, sys
sys.path.insert(0, os.path.dirname(os.path.abspath(__file__)))
import vbuild
try:
    print(vbuild.build(os.environ.get("VERIF_REPO", "/repo"), "main"))
except RuntimeError as e:
    print("HARNESS-ERROR", e)
    sys.exit(2)
