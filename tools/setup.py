#!/usr/bin/env python3
"""MANIFEST.setup_cmd: build the simulator offline from files on disk, in every
configuration the checks use (main, shuttle for C15, the C19 build matrix), so
that the checks themselves only pay an incremental rebuild."""
import os, sys
os.environ.setdefault("VERIF_DIR", os.path.dirname(os.path.dirname(os.path.abspath(__file__))))
from concurrent.futures import ThreadPoolExecutor
sys.path.insert(0, os.path.dirname(os.path.abspath(__file__)))
import vbuild, c19

repo = os.environ.get("VERIF_REPO", "/repo")
try:
    print(vbuild.build(repo, "main"))
    print(vbuild.build(repo, "main-sh", shuttle=True))
    for c, (path, dt) in c19.build_all(repo, "main", c19.CONFIGS_QUICK).items():
        print(path)
except RuntimeError as e:
    print("HARNESS-ERROR", e)
    sys.exit(2)
