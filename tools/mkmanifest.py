#!/usr/bin/env python3
"""Regenerates /verif/MANIFEST.json from the table below (single source of truth
for which properties are claimed, with which commands)."""
import json, os, subprocess

VERIF = os.path.dirname(os.path.dirname(os.path.abspath(__file__)))

# id -> (technique, level category, level text, level note, design ref)
CLAIMED = {
    "C11": ("deterministic simulation with fault injection: real WordAdapter over a simulated byte device (SimDisk) with seeded fault plans (short reads/writes at every byte limit, Interrupted, Ok(0), hard errors, seek errors, full device, trailing partial word); conservation oracle over the recorded device history",
            "fault_enumeration",
            "The first fault of each faulting run is placed systematically (call index = run/15 mod calls, byte limit cycling through 1..word bytes-1) so that every call index and per-call limit is hit across runs; further benign faults at a swarm-randomised rate. Oracle: bytes acknowledged with Ok are on the device exactly once and in order; an error leaves the acknowledged bytes plus at most a prefix of the failed word; words read equal successive device chunks; a trailing partial word is an error; word_pos = words transferred; fault-free runs must succeed. Fault-free / benign-only / faulting runs are classed and reported separately. Sampling over word values and histories, enumeration only over (call index x byte limit).",
            "SimDisk is trusted to stay within the std::io contracts; nothing is asserted about a stream after its first error.",
            "DESIGN.md §4 C11"),
    "C13": ("deterministic simulation: seeded operation histories on the real in-memory word streams vs. array+cursor model, out-of-range reads/writes/seeks as injected faults",
            "exploration",
            "Seeded search over call histories (read/write/pos/set_pos/len/flush, <=40 calls) on all four in-memory word streams, five word types, owned and borrowed storage; every return value and the final contents are compared with an array+cursor reference model after each step. Sampling, not enumeration: a clean batch is evidence, not proof.",
            "Trusts the array+cursor model written from the property text; set-position targets are capped below 2^32.",
            "DESIGN.md §4 C13"),
}

NOT_APPLICABLE = {
    "C04": "pure function (code, parameter, value, endianness) -> bits; no state, seam, fault or schedule for a simulator to control (DESIGN.md §1, §4)",
    "C06": "pure function of (code, parameter, value); lengths do not depend on buffer state, backend, fault or schedule (DESIGN.md §1, §4)",
    "C10": "dispatchers are stateless deterministic mappings identifier -> method; agreement with the direct method is a pure function of (identifier, value); the one stateful dispatcher (statistics wrapper) is covered under C15 (DESIGN.md §1, §4)",
    "C16": "Display/FromStr/to_code_const/from_code_const/PartialEq are pure functions on an enum and a string; nothing to simulate (DESIGN.md §1, §4)",
    "C17": "two pure arithmetic functions; nothing to simulate (DESIGN.md §1, §4)",
    "C20": "pure numeric functions and a deterministic iterator over a pure closure; no seam, fault or schedule (DESIGN.md §1, §4)",
}

PENDING_REASON = "check under construction in this session (claimed in DESIGN.md §1; will move to checks when its simulator family is committed)"


def main():
    props = [json.loads(l)["id"] for l in open(os.path.join(VERIF, "properties.jsonl"))]
    checks = []
    for pid in props:
        if pid in CLAIMED:
            tech, cat, text, note, ref = CLAIMED[pid]
            checks.append({
                "property_id": pid,
                "quick_cmd": "./check %s --tier quick" % pid,
                "thorough_cmd": "./check %s --tier thorough" % pid,
                "evidence_file": "/verif/evidence/%s.json" % pid,
                "replay_cmd_template": "./check %s --replay {path}" % pid,
                "engine": "dsisim",
                "level_claimed": {"category": cat, "text": text, "design_ref": ref},
                "level_note": note,
                "technique": tech,
            })
    na = []
    for pid in props:
        if pid in CLAIMED:
            continue
        na.append({"property_id": pid, "reason": NOT_APPLICABLE.get(pid, PENDING_REASON)})
    hooks_commits = []
    try:
        out = subprocess.run(["git", "-C", "/repo", "log", "--format=%H %s"], capture_output=True, text=True).stdout
        for l in out.splitlines():
            h, _, s = l.partition(" ")
            if s.startswith("verif-hook:"):
                hooks_commits.append(h)
    except Exception:
        pass
    m = {
        "version": 1,
        "setup_cmd": "python3 tools/setup.py",
        "hooks": {
            "guard": "--cfg dsi_bitstream_verif_shuttle (rustc cfg flag; set only by the C15 shuttle build through /verif/tools/vbuild.py)",
            "enable": "tools/vbuild.py writes a shadow Cargo manifest under /verif/.build/<tag>/shadow with [lib] path=/repo/src/lib.rs and builds it with RUSTFLAGS --cfg dsi_bitstream_verif (and --cfg dsi_bitstream_verif_shuttle plus the shuttle dependency for C15); /repo's own Cargo.toml and Cargo.lock are untouched",
            "baseline_off_cmd": "cd /repo && cargo test --workspace --no-fail-fast --offline",
            "source_commits": hooks_commits,
            "add_only": True,
        },
        "engines": [
            {"name": "dsisim", "path": "/verif/sim", "serves_properties": sorted(CLAIMED.keys()),
             "kind_free_text": "deterministic simulator (Rust): seeded scenario generation -> pure execution against the real crate over simulated devices (SimDisk, recording/faulty word backends) with reference models and per-step oracles; worker processes, minimiser, replay files"},
        ],
        "checks": checks,
        "not_applicable": na,
        "notes": "All checks: ./check <ID> [--tier quick|thorough] [--replay file]; honours VERIF_SEED / VERIF_TIER / VERIF_REPO. Exit 0 held, 1 VIOLATION, 2 harness error. Known findings: /verif/known_findings.json.",
    }
    with open(os.path.join(VERIF, "MANIFEST.json"), "w") as f:
        json.dump(m, f, indent=1)
        f.write("\n")

if __name__ == "__main__":
    main()
