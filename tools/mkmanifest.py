#!/usr/bin/env python3
"""Regenerates /verif/MANIFEST.json from the table below (single source of truth
for which properties are claimed, with which commands)."""
import json, os, subprocess

VERIF = os.path.dirname(os.path.dirname(os.path.abspath(__file__)))

# id -> (technique, level category, level text, level note, design ref)
SIM = "deterministic simulation (seeded scenario -> pure execution of the real crate -> per-step oracle against a reference model -> minimised replay file)"
TRUST = "Sampling, not enumeration: a clean batch is evidence, not proof. Trusted: the harness glue enums, the bit-vector model written from the documented layout, SimDisk staying within the std::io contracts."

CLAIMED = {
    "C01": (SIM + ": writer histories with close-at-an-arbitrary-instant (drop / into_inner / flush;flush;drop / flush;into_inner) over recording, vector, slice, WordAdapter/SimDisk and BufWriter backends, five word sizes",
            "exploration",
            "Seeded search over histories of write_bits(v,n)/write_unary/flush (dirty high bits, n and unary lengths biased to the free space of the bit buffer +-1 and to word multiples) on every (endianness, word, backend kind); after every op the words delivered so far must be a prefix of the model image (never more than the whole words written); flush must report the pending bits; after the close the image must be model + zero padding, flush idempotent; a quarter of the runs replays the history on all five word sizes. Scale: 300-700 ops or a unary part above 2^16 bits (1 run in 200), a unary part of 2^32 bits into a sparse recording sink (1 run in 100 000).",
            TRUST, "DESIGN.md §4 C01, §9.6 round 5"),
    "C02": (SIM + ": reader histories (read_bits/read_unary/skip/peek x2/clone) over every reader kind and backend, device backends with benign short-read/Interrupted faults",
            "exploration",
            "Seeded search over (image pattern, history) with widths biased to the word size and buffer boundaries; every value is compared with an independent model of the canonical layout; buffer fill before each op is measured from the backend word counter and reported as reach. Scale: zero runs above 2^16 bits (1 run in 300) and of 2^32 bits over a sparse word source (1 run in 100 000).",
            TRUST, "DESIGN.md §4 C02, §9.6 round 5"),
    "C03": (SIM + ": two-party round trip (writer node, reader node, independently configured, medium = memory or SimDisk with benign faults) over all codes / parameters / value classes with raw sentinels and arbitrary bit offsets",
            "exploration",
            "Value equality plus position equality against codeword extents measured from the writer's real output (marker bit), observed through the correct decoding of everything that follows and, after the last element, through bit_pos(). Known finding: u8 buffered reader + decoding tables.",
            TRUST + " Unary parts up to 2000 bits in ordinary values, 65 500-70 000 bits in one value of 300, 2^32 bits (sparse sink / source stubs) in one run of 100 000.", "DESIGN.md §4 C03, §9.6 round 5"),
    "C05": (SIM + ": differential reads on clones of the same reader (tables off / every table option / parameterless default) after seeded prefix histories; twin writers; diagnosed (reader, table) pairs measured from the library's real stderr",
            "exploration",
            "Arbitrary images with a systematically cycling planted look-ahead pattern (every decode-table index of every table, both endiannesses, is required in the thorough tier) and valid streams around the table boundaries cut near the end of strict backends (failed-peek fallback); outcomes (value|error, position, next bits) must be identical across variants; encoders and length functions likewise. One run in 97: a user-defined reader with n = 1..=64 bits of look-ahead that calls check_tables(n); every table variant that was not diagnosed must equal the table-less read.",
            TRUST + " A tiny validity model keeps the bit-by-bit decoder inside its domain on arbitrary images.", "DESIGN.md §4 C05"),
    "C07": (SIM + ": histories with bit_pos() checked after every step and seeks to arbitrary targets over memory backends and WordAdapter/BufReader over SimDisk (benign faults invisible, injected seek errors must surface); lock-step fresh reader",
            "exploration",
            "bit_pos equals the model position after every op (reads, peeks, skips, code reads with tables, io::Read, seeks); after a seek every value equals the model read from p; a quarter of the runs runs a fresh reader that consumed exactly p bits in lock-step. Scale: one run in 40 seeks and reads at positions up to 2^62 bits of a sparse stream (word stub or real WordAdapter over a sparse byte source). A quarter of the device-backed runs creates the reader over a byte stream that is already positioned at word 1..3.",
            TRUST, "DESIGN.md §4 C07, §9.6 round 5"),
    "C08": (SIM + ": two-party copy histories (source reader with look-ahead pre-history, pre-filled destination writer u8..u128, copy_to/copy_from, continuation incl. peeks, table reads and further copies)",
            "exploration",
            "Destination image = model (previous bits || next n source bits || later writes), source advanced by n, every continuation value equals the model. Measured reach: copies with more than one word / more than 64 bits buffered, n above the buffer, whole u128 words. Scale: copies of 65 000-90 000 bits (1 run in 200) and of more than 2^32 bits between sparse stubs (1 run in 100 000). A quarter of the copies goes through the default copy_to / copy_from of the traits (pass-through wrappers standing for user-defined streams). A quarter of the strict-source runs ends with a copy of more bits than the source holds: it must fail without altering what the destination held before.",
            TRUST, "DESIGN.md §4 C08, §9.6 round 5"),
    "C09": (SIM + " with fault injection: producer crash = valid stream truncated after a backend word; strict readers over 6 strict backends incl. a stub failing with EOF or a hard error; zero-extended reader",
            "fault_enumeration",
            "The cut is placed relative to measured codeword extents (items ending 0..2 words before, exactly at, or straddling the cut); items wholly inside must decode (incl. failed-peek table fallback), the first operation needing a bit beyond the cut must return Err, never a value; zero-extended readers see zeros and never fail. After the end-of-data error the reader is seeked back to the start of an earlier item and every item inside the data must decode again. Half of the byte-adapter runs end the byte stream inside a word (partial trailing word).",
            TRUST + " Nothing is asserted between the first Err and that seek (the state of a reader after a failed operation is not specified; see DESIGN.md §9.6 round 6).", "DESIGN.md §4 C09, §9.6 round 6"),
    "C11": (SIM + " with fault injection: real WordAdapter over a simulated byte device (SimDisk) with seeded fault plans (short reads/writes at every byte limit, Interrupted, Ok(0), hard errors, seek errors, full device, trailing partial word); conservation oracle over the recorded device history",
            "fault_enumeration",
            "The first fault of each faulting run is placed systematically (call index = run/15 mod calls, byte limit cycling through 1..word bytes-1) so that every call index and per-call limit is hit across runs; further benign faults at a swarm-randomised rate. Oracle: bytes acknowledged with Ok are on the device exactly once and in order; an error leaves the acknowledged bytes plus at most a prefix of the failed word; words read equal successive device chunks; a trailing partial word is an error; word_pos = words transferred; fault-free runs must succeed; after a failed read or write, checking resumes at the next successful absolute seek (seeking to a word position addresses that word). 'Trickle' plans make nearly every call short or interrupted. Bit-level reads include table-driven codes (known finding: a hard error inside the look-ahead is swallowed by the table readers).",
            TRUST + " Nothing is asserted about a stream between an error and the next successful seek. Word positions up to 2^62 bytes are exercised fault-free over a sparse byte source (1 run in 25); a word_pos() reported after a failed read/write (direct wrap) must equal the device byte position in words, rounded down or up; a flush that failed only in the sink\x27s own flush is retried once and must not duplicate bytes.", "DESIGN.md §4 C11, §9.6 rounds 5-6"),
    "C12": (SIM + ": histories interleaving io::Write::write/write_all and io::Read::read of slices of every length class with bit operations at every bit offset, writer words u8..u128, all reader kinds",
            "exploration",
            "The model stream gains / yields exactly the slice bytes in stream order at the current position; the call reports the whole slice; no panic. Scale: slices up to 70 001 bytes (1 slice in 250) and single slices / read buffers of 512 KiB-1 .. 1 MiB+7 (1 run in 750). The address alignment of the slices and read buffers handed to the library (offset 0..7 from an 8-byte aligned address) is a scenario input.",
            TRUST, "DESIGN.md §4 C12, §9.6 round 5"),
    "C13": (SIM + ": seeded operation histories on the real in-memory word streams vs. array+cursor model, out-of-range reads/writes/seeks as injected faults",
            "exploration",
            "Seeded search over call histories (read/write/pos/set_pos/len/flush and, for the readers, clone-and-continue; <=40 calls) on all four in-memory word streams, five word types, owned and borrowed storage; every return value and the final contents are compared with an array+cursor reference model after each step.",
            "Trusts the array+cursor model written from the property text; set-position targets include 2^k + small, 2^63 +- small and values up to 2^64-1 (2^64-1200 for the zero-extended reader, so that following reads cannot overflow its cursor).",
            "DESIGN.md §4 C13"),
    "C14": (SIM + ": the same history on a bare stream and through CountBit*/DbgBit* wrappers created mid-stream, through every path the wrappers expose",
            "exploration",
            "Values, returned lengths, bytes and positions must be identical; bits_read must equal the bare reader's bit_pos delta and bits_written the measured bits appended after every step; after a flush both consistent readings of the counter are accepted. A third of the reader cases then seeks back through the wrapper and reads the rest again; one run in 100 000 drives the counters across a unary part / skip of 2^32 bits over the sparse stubs.",
            TRUST, "DESIGN.md §4 C14, §9.6 rounds 5-6"),
    "C15": ("deterministic simulation of thread schedules: shuttle (seeded random and PCT schedulers, replayable schedule) runs 2-4 simulated threads plus an observer on one shared CodesStatsWrapper whose Mutex is shuttle's through a cfg-guarded import; snapshots are decoded (base-4 digits of the unary total) into per-value update counts and checked for exactness and real-time order; totals against real encoded sizes",
            "exploration",
            "Per case 20 (quick) / 60 (thorough) schedules: every snapshot must be the exact sum over the per-value update counts encoded in its unary total (no torn update; values may repeat, also across threads), contain all updates completed before it and none invoked after it; after join every per-code total equals the real encoded size measured from the writer's output (pins the index->parameter mapping); merged partial statistics (add, +=, +, sum, multiplicities; default family sizes and CodesStats<3,5,2,6,4>) equal the union; best_code has the minimum total and its real cost. Every schedule ends with writes through the wrapper into a full fixed slice and reads from an exhausted strict stream: a failed call (static and dynamic dispatch paths in turn) must leave count and totals unchanged. A failing schedule is pinned in the replay file.",
            "Trusts shuttle's scheduler and Mutex model; the only lock in the crate is the one replaced through the hook. Sizes for (code, value) pairs with unary parts above 20000 bits are not measured.",
            "DESIGN.md §4 C15"),
    "C19": ("deterministic configuration replay: the same seeded histories of families C01 C02 C03 C05 C07 C08 C09 C12 C13 C14 C18 (clean arguments) are executed by 6 (quick) / 8 (thorough) builds of the crate (features default/checks/no_copy_impls/both x release/debug-assertions+overflow-checks) and the per-run event-log digests are diffed; exhaustive C19W family for the checks assertion",
            "exploration",
            "Any difference between builds in the digest of the complete event log (returns, bytes, lengths, positions, Ok/Err) of any run, or a panic in one build only, is a violation, minimised on the pair of builds. C19W enumerates every (endianness, word, width n, dirty bit b>=n) and clean arguments: write_bits must panic iff checks is on and the argument is dirty.",
            "Relies on the simulator being deterministic (selftest determinism); clean arguments only; u8 readers without tables (recorded known finding).",
            "DESIGN.md §4 C19"),
    "C18": (SIM + " with fault injection: vbyte_read*/vbyte_write* over SimDisk (short transfers, Interrupted, Ok(0), hard errors, full device, truncation inside a value) vs. the bit-stream VByte traits; decode/re-encode of random terminated strings",
            "fault_enumeration",
            "Device bytes == bit-stream image bytes; lengths follow the completeness steps; decode(encode(v)) = v; encode(decode(s)) = s; generic entry = named variant; benign faults invisible; EOF or error inside a value is Err, never a value.",
            TRUST + " Value dimension sampled (biased to length steps), not swept.", "DESIGN.md §4 C18"),
}

NOT_APPLICABLE = {
    "C04": "pure function (code, parameter, value, endianness) -> bits; no state, seam, fault or schedule for a simulator to control (DESIGN.md §1, §4)",
    "C06": "pure function of (code, parameter, value); lengths do not depend on buffer state, backend, fault or schedule (DESIGN.md §1, §4)",
    "C10": "dispatchers are stateless deterministic mappings identifier -> method; agreement with the direct method is a pure function of (identifier, value); the one stateful dispatcher (statistics wrapper) is covered under C15 (DESIGN.md §1, §4)",
    "C16": "Display/FromStr/to_code_const/from_code_const/PartialEq are pure functions on an enum and a string; nothing to simulate (DESIGN.md §1, §4)",
    "C17": "two pure arithmetic functions; nothing to simulate (DESIGN.md §1, §4)",
    "C20": "pure numeric functions and a deterministic iterator over a pure closure; no seam, fault or schedule (DESIGN.md §1, §4)",
}

PENDING_REASON = "check under construction in this session (claimed in DESIGN.md §1; will move to checks when its simulator family is committed)"


def main():
    props = [json.loads(l)["id"] for l in open(os.path.join(VERIF, "properties.jsonl"))]
    checks = []
    for pid in props:
        if pid in CLAIMED:
            tech, cat, text, note, ref = CLAIMED[pid]
            checks.append({
                "property_id": pid,
                "quick_cmd": "./check %s --tier quick" % pid,
                "thorough_cmd": "./check %s --tier thorough" % pid,
                "evidence_file": "/verif/evidence/%s.json" % pid,
                "replay_cmd_template": "./check %s --replay {path}" % pid,
                "engine": "dsisim",
                "level_claimed": {"category": cat, "text": text, "design_ref": ref},
                "level_note": note,
                "technique": tech,
            })
    na = []
    for pid in props:
        if pid in CLAIMED:
            continue
        na.append({"property_id": pid, "reason": NOT_APPLICABLE.get(pid, PENDING_REASON)})
    hooks_commits = []
    try:
        out = subprocess.run(["git", "-C", "/repo", "log", "--format=%H %s"], capture_output=True, text=True).stdout
        for l in out.splitlines():
            h, _, s = l.partition(" ")
            if s.startswith("verif-hook:"):
                hooks_commits.append(h)
    except Exception:
        pass
    m = {
        "version": 1,
        "setup_cmd": "python3 tools/setup.py",
        "hooks": {
            "guard": "--cfg dsi_bitstream_verif_shuttle (rustc cfg flag; set only by the C15 shuttle build through /verif/tools/vbuild.py)",
            "enable": "tools/vbuild.py writes a shadow Cargo manifest under /verif/.build/<tag>/shadow with [lib] path=/repo/src/lib.rs and builds it with RUSTFLAGS --cfg dsi_bitstream_verif (and --cfg dsi_bitstream_verif_shuttle plus the shuttle dependency for C15); /repo's own Cargo.toml and Cargo.lock are untouched",
            "baseline_off_cmd": "cd /repo && cargo test --workspace --no-fail-fast --offline",
            "source_commits": hooks_commits,
            "add_only": True,
        },
        "engines": [
            {"name": "dsisim", "path": "/verif/sim", "serves_properties": sorted(CLAIMED.keys()),
             "kind_free_text": "deterministic simulator (Rust): seeded scenario generation -> pure execution against the real crate over simulated devices (SimDisk, recording/faulty word backends) with reference models and per-step oracles; worker processes, minimiser, replay files"},
        ],
        "checks": checks,
        "not_applicable": na,
        "notes": "All checks: ./check <ID> [--tier quick|thorough] [--replay file]; honours VERIF_SEED / VERIF_TIER / VERIF_REPO. Exit 0 held, 1 VIOLATION, 2 harness error. Known findings: /verif/known_findings.json.",
    }
    with open(os.path.join(VERIF, "MANIFEST.json"), "w") as f:
        json.dump(m, f, indent=1)
        f.write("\n")

if __name__ == "__main__":
    main()
